"""Synthesise concrete record bytes (JSON text) realising the solver's valuation of an abstract record.

The engine abstracts encoding/json on arbitrary bytes by uninterpreted parse results per record r:
  empty, sErr (struct parse fails), sID/sTok/sPrio, mErr (generic-map parse fails), mHas_f/mIsStr_f/mStr_f for f in id, token.
For native replay the model's valuation is turned into bytes from a small template family."""
import json, re

ATTRS = ["sNull", "empty", "sErr", "mErr", "sID", "sTok", "sPrio", "mHas_id", "mIsStr_id", "mStr_id", "mHas_token", "mIsStr_token", "mStr_token",
         "mHas_priority", "mIsNum_priority", "mNum_priority"]


def real(v):
    """SMT-LIB real literal -> python number (int when integral)."""
    if v is None:
        return None
    v = v.strip()
    neg = False
    m = re.match(r"^\(- (.*)\)$", v)
    if m:
        neg, v = True, m.group(1).strip()
    m = re.match(r"^\(/ ([0-9.]+) ([0-9.]+)\)$", v)
    try:
        x = float(m.group(1)) / float(m.group(2)) if m else float(v)
    except ValueError:
        return None
    x = -x if neg else x
    return int(x) if x == int(x) and abs(x) < 2 ** 63 else x


def unesc(s):
    if s is None:
        return ""
    if len(s) >= 2 and s[0] == '"' and s[-1] == '"':
        s = s[1:-1]
    s = s.replace('""', '"')
    return re.sub(r"\\u\{([0-9a-fA-F]+)\}", lambda m: chr(int(m.group(1), 16)), s)


def synthesise(model):
    recs = {}
    for k, v in (model or {}).items():
        if not k.startswith("rec_"):
            continue
        for a in ATTRS:
            if k.endswith("_" + a):
                recs.setdefault(k[: -len(a) - 1], {})[a] = v
                break
    out = {}
    for name, a in recs.items():
        if name.endswith("_dec"):
            continue
        out[name] = synth_one(a)
    # decoder views: bytes whose FIRST JSON value parses although the whole does not (json.Decoder semantics)
    for name, a in recs.items():
        if not name.endswith("_dec"):
            continue
        base = name[:-4]
        ba = recs.get(base, {})
        if (b(ba, "mErr") or b(ba, "sErr")) and not b(a, "mErr") and not b(ba, "empty"):
            out[base] = synth_one(a) + "] trailing-garbage"
    return out


def b(a, k, default=False):
    v = a.get(k)
    if v is None:
        return default
    return v == "true"


def synth_one(a):
    if b(a, "empty"):
        return ""
    if b(a, "sNull"):
        return "null"
    if b(a, "mErr"):
        return "{"  # not JSON: both parses fail
    parts = []
    s_err = b(a, "sErr")
    sid, stok = unesc(a.get("sID", '""')), unesc(a.get("sTok", '""'))
    try:
        sprio = int(a.get("sPrio", "0"))
    except ValueError:
        sprio = 0
    for f, sval, alt in (("id", sid, "ID"), ("token", stok, "TOKEN")):
        has = b(a, "mHas_" + f, True)
        isstr = b(a, "mIsStr_" + f, True)
        mval = unesc(a.get("mStr_" + f)) if a.get("mStr_" + f) is not None else sval
        if has:
            if isstr:
                parts.append("%s:%s" % (json.dumps(f), json.dumps(mval)))
                if not s_err and sval != mval:
                    parts.append("%s:%s" % (json.dumps(alt), json.dumps(sval)))  # case-insensitive key: struct only
            else:
                parts.append("%s:null" % json.dumps(f))  # present, not a string; struct parse leaves the field untouched
                if not s_err and sval != "":
                    parts.append("%s:%s" % (json.dumps(alt), json.dumps(sval)))
        else:
            if not s_err and sval != "":
                parts.append("%s:%s" % (json.dumps(alt), json.dumps(sval)))
    # priority: the generic-map view sees only the exact key "priority"; the struct view also matches other spellings
    p_has = b(a, "mHas_priority", True) if "mHas_priority" in a else None
    if p_has is None:  # map view of the priority never consulted: one key serves both views
        if s_err:
            parts.append('"priority":"not-a-number"')  # valid JSON, struct parse fails
        elif sprio != 0:
            parts.append('"priority":%d' % sprio)
        return "{" + ",".join(parts) + "}"
    p_isnum = b(a, "mIsNum_priority", True)
    mnum = real(a.get("mNum_priority"))
    if p_has:
        if p_isnum:
            if mnum is None:
                mnum = sprio
            parts.append('"priority":%s' % json.dumps(mnum))
            if s_err:
                if not (isinstance(mnum, float)):
                    parts.append('"PRIORITY":"not-a-number"')
            elif mnum != sprio:
                parts.append('"PRIORITY":%d' % sprio)
        else:
            parts.append('"priority":null')
            if s_err:
                parts.append('"PRIORITY":"not-a-number"')
            elif sprio != 0:
                parts.append('"PRIORITY":%d' % sprio)
    else:
        if s_err:
            parts.append('"PRIORITY":"not-a-number"')
        elif sprio != 0:
            parts.append('"PRIORITY":%d' % sprio)
    return "{" + ",".join(parts) + "}"
