"""Per-property harness groups, bounds and assumptions (read by bin/check)."""

COMMON_ASSUMPTIONS = [
    "front end: go/packages + go/ssa (x/tools v0.50.0) build the SSA of /repo/leader from the current working tree on every run; the SSA builder and go/types are trusted",
    "executor gosym interprets that SSA over SMT terms; integers are mathematical Int terms with a solver-checked wrap-around normalisation at every arithmetic result; pointers, interfaces and slices are concrete",
    "decisions: every branch on a symbolic condition, every scheduler/select/timer-order choice and every assertion is decided by z3 4.8.12 (cvc5 for string theory); unknown/timeout is never counted as success",
    "context switches only at store-operation legs (stub yields), user-callback entry/exit, blocking operations and timer expiry; code between two such points of one goroutine executes atomically (reduction R1)",
    "computation takes zero virtual time; timers fire at their deadline once no goroutine is runnable (the testing/synctest model); store and callback latencies are explicit symbolic delays",
    "JetStream KV is the reference store stub written in Go in the harness (one linearizable register per key, last-sequence revisions, tombstones, MaxAge expiry); JetStream itself is not encoded",
    "encoding/json on arbitrary bytes is over-approximated by uninterpreted parse results; round-trips of the library's own payload are exact; uuid.New() yields pairwise distinct tokens; ctx.Value() is nil",
    "logging and zap field constructors are empty stubs; Metrics/Logger are nil or harness recorders",
]

Q = lambda *a: list(a)

# thorough-only harness variants (deeper bounds); left out of every quick run
DEEP = ["vpH_C02_T_churn2", "vpH_C03_T_unreachable_fast", "vpH_C04_T_validate_racing", "vpH_C07_T_leftover_symrand",
        "vpH_C08_T_causes_symrand", "vpH_C09_T_stop_leader_slow", "vpH_C11_T_grace5", "vpH_C11_T_late_notify_deep", "vpH_C12_T_health7",
        "vpH_C13_T_follower_arb", "vpH_C15_wrapped2", "vpH_C14_T_watch7", "vpH_C17_T_breaker_seq5", "vpH_C10_T_safety2"]

PROPS = {
    "C16": {
        "groups": [{"run": "^vpH_C16_", "args": ["-solver", "z3-new", "-timeout-ms", "30000"], "quick": [], "thorough": ["-timeout-ms", "60000"]}],
        "bounds": {"quick": "every ElectionConfig field symbolic; durations within +/-1 year (so 3*H and 2*H cannot wrap); Priority and MaxConsecutiveFailures within +/-10^6; strings arbitrary (equality with \"\" only); single call of NewElection, no loops"},
        "outside": "durations beyond one year (64-bit wrap of 3*H); Logger/Metrics/HealthChecker fields are nil",
        "assumptions": ["provider stub records whether JetStream()/KeyValue() were called"],
        "level_text": "All paths of NewElection -> newKVElection -> validateConfig are executed symbolically with every configuration field a solver variable; 'accepted iff the documented conjunction holds', 'error names an offending field' and 'nothing contacted or started before the error' are decided by z3 for all field values within the stated range, not for a lattice of samples.",
        "level_note": "Durations bounded to +/-1 year (beyond that 3*H wraps; stated outside the claim); string fields only tested for emptiness; trusted: go/ssa front end, the executor, z3.",
    },
}

PROPS["C15"] = {
    "groups": [{"run": "^vpH_C15_"}],
    "bounds": {"quick": "error values = 17 leaf kinds (library sentinels and error types, context errors, errors.New(text), and the nats.go client's *APIError 10071 / ErrKeyNotFound / ErrTimeout / ErrNoResponders / ErrConnectionClosed values) under 0 or 1 of 4 wrappers (fmt.Errorf %w with free text, ElectionError, TokenValidationError, the constructor's own wrapper); every message text, operation name, time-out and sequence number symbolic",
               "thorough": "as quick plus wrap depth 2 (all 16 wrapper pairs)"},
    "outside": "wrap depth > 2; Unwrap() []error trees (errors.Join); texts whose lower-casing is not ASCII-like",
    "assumptions": ["strings.Contains(strings.ToLower(text), constant) over texts with free symbolic pieces is encoded by one Bool per (free piece, pattern) with substring-closure and equality axioms; exact when no occurrence can straddle a piece boundary, otherwise a free Bool is added (over-approximation, sat answers must replay). cvc5's string theory was tried first and abandoned: 7 min and 181 unknowns on the depth-0 harness",
                    "formatted symbolic durations are opaque pieces matching -?[0-9][0-9.hmsµn]*"],
    "level_text": "IsPermanentError/IsTransientError (with errors.Is/As following the real Is/Unwrap methods of the library's and nats.go's error types) are executed symbolically on every error shape in the bound with all texts symbolic; exclusivity, totality, the fixed classes (also wrapped) and the classification of the real NATS client's conflict/time-out values are decided by z3 for all texts, not for example messages.",
    "level_note": "Error shapes bounded by wrap depth (1 quick / 2 thorough) and the listed leaf and wrapper kinds; the contains-abstraction above is part of the trusted base; counterexamples are replayed natively with synthesised texts.",
}
PROPS["C17"] = {
    "groups": [{"run": "^vpH_C17_backoff$", "args": ["-solver", "z3-new", "-timeout-ms", "30000"]},
               {"run": "^vpH_C17_(backoff_conc|breaker_step|T_retry|T_breaker_seq|T_breaker_seq5|T_round|T_round_flapping_record)$", "args": ["-solver", "z3-new"]}],
    "bounds": {"quick": "CalculateBackoff: InitialBackoff, MaxBackoff in [0, 100 days] (exact int64->float64 conversion; the exact-evaluation harness goes to one year), multiplier in [1, 10^6], jitter in [0,1], attempt any non-negative int (math.Pow uninterpreted: finite in [1,MaxFloat64] or +Inf); float64 = Real with relative rounding error 2^-53 per operation; plus exact evaluation for multipliers {1.1,2} x attempts {0,1,10,33,1100}. RetryWithBackoff: MaxAttempts 0..4 (0 bounded by 6 invocations), every outcome sequence over {nil, permanent, transient}, optional cancellation at a symbolic instant within 2 s, default backoff config. CircuitBreaker: one Call from an arbitrary reachable state (threshold 1..10^6, cooldown and elapsed time up to a year: an inductive step covering histories of any length) plus sequences of 2*threshold+2 calls for threshold 1..3 with symbolic gaps. Acquisition round: one round of 4 failing Creates."},
    "outside": "durations above one year (float->int64 overflow at 2^63 ns); multipliers below 1; negative MaxAttempts; RetryWithBackoff with a CircuitBreaker attached",
    "assumptions": ["math.Pow(x,y): y=0 or x=1 gives 1, y=1 gives x, result >= x for x,y >= 1, finite results within [1, MaxFloat64]; the +Inf branch is explored for base >= 2, exponent >= 1024",
                    "rand.Float64() is an arbitrary real in [0,1); native replays of jitter-dependent counterexamples are repeated up to 300 times because the library's random source cannot be controlled",
                    "float->int conversion of NaN / out-of-range values yields math.MinInt64 (amd64)"],
    "level_text": "The real CalculateBackoff, RetryWithBackoff, CircuitBreaker.Call and attemptAcquireWithRetry are executed symbolically: configuration values, attempt numbers, random draws, operation outcomes, call instants and the clock are solver variables, and band, non-negativity, invocation-count, wait and breaker state obligations are decided by z3 (5.1.0, nonlinear real arithmetic) for all of them within the bounds.",
    "level_note": "float64 arithmetic is modelled as real arithmetic with a relative rounding error per operation (full IEEE encoding does not finish); math.Pow is uninterpreted under the stated contract; trusted: front end, executor, z3.",
}
PROPS["C03"] = {
    "groups": [{"run": "^vpH_C03_T_|^vpH_C08_T_causes$"}],
    "bounds": {"quick": "one real election (Start -> attemptAcquire -> becomeLeader -> heartbeatLoop, handleHeartbeatFailure, IsPermanentError) against the reference store; timing configurations (H,TTL) in {(1s,3s),(4s,12s)}, both error dialects (mock texts / nats.go values); request latency of every store operation symbolic in [0, time-out); the change (record replaced or deleted by another writer) or the beginning of the outage at a symbolic instant in [0, 2.5H]; during the outage each operation independently fails after a symbolic delay in [0,time-out] or never answers, applied or not; at most 7 store operations",
               "thorough": "as quick plus (H,TTL)=(200ms,10s) (time-out = 5H) with the outage beginning in [0, 2.5H + time-out]"},
    "outside": "more than ~3 heartbeats before the fault (the failure counter is reset by every success, so longer histories repeat explored shapes: stated, not proved); scheduling latency; expiry of the record underneath a leader whose refreshes succeed (cannot happen: TTL >= 3H)",
    "assumptions": ["ValidationInterval is set to 1h so that the periodic validation (C04) does not interfere"],
    "level_text": "The real heartbeat loop runs symbolically under a symbolic clock: the instant of the fault, every latency and every per-operation failure mode are solver variables, the goroutine schedule is explored exhaustively at store-operation legs, and the two time bounds of the property are linear-arithmetic obligations over the clock decided by z3 on every path.",
    "level_note": "Bounded to the listed timing configurations and 7 store operations; reductions R1/R2 of DESIGN.md section 4 (atomic segments, zero-time computation) apply.",
}
PROPS["C12"] = {
    "groups": [{"run": "^vpH_C12_T_"}],
    "bounds": {"quick": "one real leader (heartbeatLoop, handleHealthCheckFailure, becomeFollower) with a scripted checker whose verdict at every tick is an explorer choice; threshold MaxConsecutiveFailures in {0 (default 3),1,2,3,4}, threshold+2 ticks; two-term histories (term 1 of threshold-1 ticks ended by Stop, restart, term 2 of threshold+1 ticks) for thresholds 2 and 3; H=1s; the context handed to every Check must expire within 100 ms"},
    "outside": "thresholds above 4; more than two terms; checkers that block (slow results)",
    "assumptions": ["record expiry is switched off in these harnesses (unhealthy ticks skip the refresh by design)"],
    "level_text": "The real heartbeat loop runs against every healthy/unhealthy verdict sequence within the bound (exhaustive over sequences, thresholds and schedules); an oracle computed independently from the verdict log decides, on every path, that demotion by the health path happens exactly at the N-th consecutive unhealthy tick of the current term.",
    "level_note": "Exhaustive over verdict sequences up to threshold+2 ticks; data is concrete here (the solver decides clock-related branches only); reductions R1/R2.",
}
PROPS["C07"] = {
    "groups": [{"run": "^vpH_C07_T_"}],
    "bounds": {"quick": "one real election started next to a live foreign record (follower with watcher, 500ms periodic check and first acquisition round running); fault-free store with immediate answers; the foreign owner's shutdown (record deleted) at a symbolic instant in [0,600ms], i.e. at any point of the follower's first acquisition round (jitter/backoff draws fixed at rand=0.5); horizon 2.5 heartbeats after the election (H=1s). Stale notifications: after the leader has settled one late event is injected into its watch channel: an old event naming the previous owner, a duplicate of its own latest write, or the previous owner's old deletion marker",
               "thorough": "as quick with every jitter/backoff draw symbolic"},
    "outside": "store latencies above zero in these scenarios; more than one stale notification; other instances racing for the vacancy (their failed Creates leave the store unchanged; the environment here only removes the old record)",
    "assumptions": [],
    "level_text": "The real follower-side code (watchLoop, handleWatchEvent, checkKeyAndReelect, attemptAcquireWithRetry) and leader-side code run together symbolically; the vacancy instant is a solver variable, so one exploration covers every placement of the vacancy relative to the retries of the leftover acquisition round; a monitor inside the Metrics.SetIsLeader callback observes every change of the leadership flag itself.",
    "level_note": "Reductions R1/R2; scheduler decisions are offered whenever an enabled goroutine is parked at a store-operation leg, goroutines woken by timers or channels otherwise run in creation order.",
}
PROPS["C04"] = {
    "groups": [{"run": "^vpH_C04_T_|^vpH_C08_T_same_cause_twice$"}],
    "bounds": {"quick": "a real leader (built through NewElection/Start) whose record is then left alone, overwritten with ARBITRARY bytes (abstract JSON: every parse outcome symbolic), deleted, replaced by another instance's payload or by a later incarnation with the same id; caller leader or already demoted; context live, cancelled, or with a 100ms deadline; the read fails with an error or (with a deadline) never answers; ValidateToken, ValidateTokenOrDemote, and the background validationLoop (record taken by a later incarnation while refreshes hang) over 6 intervals"},
    "outside": "records changing DURING the Get (the read is one linearisable store operation in the stub); hang with a context that never expires (the call then blocks, which the statement does not cover)",
    "assumptions": ["json.Unmarshal into map[string]interface{} on arbitrary bytes: error flag, presence, string-ness and value of the id and token members are independent symbolic values"],
    "level_text": "validateToken (with its inner Get goroutine and select), ValidateToken, ValidateTokenOrDemote, handleValidationFailure and validationLoop run symbolically on every record shape: the verdict is compared with an oracle over the abstract record that the store returned at the read's linearisation point, for all byte strings at once through the JSON abstraction.",
    "level_note": "JSON over-approximation (sound for these safety obligations); one validation call per path; reductions R1/R2.",
}
PROPS["C10"] = {
    "groups": [{"run": "^vpH_C10_T_|^vpH_C08_T_causes$"}],
    "bounds": {"quick": "safety: a candidate with symbolic priority (0..1000) and takeover flag (valid configurations) next to a live record of another instance with symbolic stored priority, or arbitrary bytes; optionally a third party replaces the record (symbolic priority) at ANY store-operation leg of the candidate; start attempt, watcher start and first acquisition round (300ms); audit of the complete store log. Promptness: higher-priority candidate started at a symbolic instant within one heartbeat next to an incumbent heartbeating every H=1s, store latency zero"},
    "outside": "more than one interfering write; latencies above zero in the promptness scenario; 3-5 real instances (other instances are the environment, see DESIGN section 3)",
    "assumptions": [],
    "level_text": "attemptAcquire/attemptPriorityTakeover/handleWatchEvent run symbolically with priorities, flag and record contents as solver variables and a third party schedulable between any two store operations; the oracle over the store's mutation log (replacement only if enabled, strictly higher than the record actually replaced, against the revision read) is decided by z3 for all priority assignments including ties.",
    "level_note": "One real candidate against environment writers (assume-guarantee structure of DESIGN section 3); reductions R1/R2.",
}
PROPS["C13"] = {
    "groups": [{"run": "^vpH_C13_T_"}],
    "bounds": {"quick": "record value = arbitrary bytes through the JSON abstraction (empty, unparsable for the struct and/or the generic map, wrong field types, missing fields, any id/token/priority); follower and takeover-enabled candidate starting next to it (700ms: start attempt, watcher, acquisition round, periodic check); rewrite while following then removal (must still take over); leader whose record is overwritten at a symbolic instant (demotion within the C03 bound); call depth bound 60 and 3*10^6 SSA steps per path as unwinding assertions"},
    "outside": "very large values (the abstraction has no size); several successive rewrites",
    "assumptions": [],
    "level_text": "Every function that reads the record (handleWatchEvent, checkKeyAndReelect, attemptPriorityTakeover, heartbeat conflict path) runs symbolically on an abstract record whose parse results are solver variables, so all byte strings are covered at once; panics, unbounded recursion (call-depth assertion) and runaway loops (step budget) are events of the executor, and claims over a foreign live record are checked against the store.",
    "level_note": "JSON over-approximation; bounds above; reductions R1/R2.",
}
PROPS["C09"] = {
    "groups": [{"run": "^vpH_C09_T_|^vpH_C11_T_stop_vs_notify$|^vpH_C06_T_restart_stuck$"}],
    "bounds": {"quick": "stop variants Stop, StopWithContext{}, {DeleteKey}, {DeleteKey,WaitForDemote}; the stop call is placed by the explorer at EVERY store-operation leg (before issue, between issue and application, between application and response, after the response) and at every quiescent instant (timer boundary) of (a) a leader during 2.5 heartbeats, (b) a follower during the 500ms in which its leader vanishes and its acquisition round runs (jitter wait, Create in flight), (c) the first second after Start with a Create latency of up to 7s (longer than Stop's own 5s wait); repeated stops and stop-then-start; after the return: 6s (or 15s) more of virtual time, then the claim, OnPromote count, store-operation issue log, surviving goroutines and state are checked"},
    "outside": "stops during reconnect verification (C11 harnesses); OnDemote callbacks that block; StopWithContext with a caller context that is cancelled",
    "assumptions": [],
    "level_text": "The real Stop/StopWithContext run concurrently with the real background goroutines; the explorer places the call at every scheduling point within the bound, store latencies are symbolic, and finality (no claim, no OnPromote, no store operation, no surviving goroutine after the return) and the return-time bound are checked on every path by monitors inside the Metrics callback and the store's issue log.",
    "level_note": "Reductions R1/R2 (a stop between two atomics of one critical section is not explored); bounded windows as listed.",
}
PROPS["C08"] = {
    "groups": [{"run": "^vpH_C08_T_|^vpH_C01_T_stop_delete$|^vpH_C09_T_stop_after_cancel$|^vpH_C07_T_leftover_takeover$|^vpH_C11_T_stop_vs_expiry$"}],
    "bounds": {"quick": "one real instance, H=1s, elected directly or through the follower path (watcher running), promotion callback returning at once or blocking on its context; first term ended by each cause: record replaced (heartbeat conflict), record deleted, three failing refreshes, record taken by a later incarnation while refreshes hang (periodic validation), health threshold, preemption observed through the watcher before the next heartbeat, Stop, StopWithContext{WaitForDemote}, StopWithContext{DeleteKey,WaitForDemote}; then (unless stopped) the blocking record is removed, the instance leads a second term through the real follower path and is stopped; heartbeat and validation tickers coinciding (two causes in one tick); audits at every quiescent point"},
    "outside": "connection-loss and reconnect-verification demotions (C11 harnesses); more than two terms; callbacks that never return without cancellation",
    "assumptions": ["leadership edges are observed inside the Metrics.SetIsLeader callback, i.e. at the flag change itself"],
    "level_text": "All paths (schedules, fault choices) of the scenario family are explored; at every quiescent point the callback log recorded by the harness is compared with the leadership edges observed at the flag: strict alternation starting with a promotion, one promotion per term, exactly one demotion per true->false edge, and IsLeader() <=> promotions - demotions = 1.",
    "level_note": "Exhaustive over the listed causes and schedules within R1/R2; data is concrete in this family (the solver decides clock comparisons).",
}
PROPS["C19"] = {
    "groups": [{"run": "^vpH_C08_T_|^vpH_C19_T_"}],
    "bounds": {"quick": "one real instance, H=1s, elected directly or through the follower path (watcher running), promotion callback returning at once or blocking on its context; first term ended by each cause: record replaced (heartbeat conflict), record deleted, three failing refreshes, record taken by a later incarnation while refreshes hang (periodic validation), health threshold, preemption observed through the watcher before the next heartbeat, Stop, StopWithContext{WaitForDemote}, StopWithContext{DeleteKey,WaitForDemote}; then (unless stopped) the blocking record is removed, the instance leads a second term through the real follower path and is stopped; heartbeat and validation tickers coinciding (two causes in one tick); audits at every quiescent point"},
    "outside": "as C08",
    "assumptions": [],
    "level_text": "For every term of every explored path the context handed to OnPromote is inspected at quiescent points: cancelled once the term is over (every cause), not cancelled while the term lasts and the callback (which blocks on the context) is still running.",
    "level_note": "as C08",
}
PROPS["C02"] = {
    "groups": [{"run": "^vpH_C02_T_|^vpH_C07_T_(leftover|stale_read_changed)$|^vpH_C09_T_stop_(leader|slow_create|window)$|^vpH_C08_T_restart_leftover$"}],
    "bounds": {"quick": "TTL margin: H symbolic in [100ms,10s], TTL symbolic in [3H,3H+2s], every store latency symbolic below H/2, three heartbeats, at most 5 store operations: the record replaced by each refresh was still live. Churn: one real instance (H=1s, TTL=3s) next to a protocol-conforming environment ('the others': creates the record when vacant, refreshes / deletes only its own), Stop / StopWithContext{DeleteKey} / {DeleteKey,WaitForDemote} and optional restart placed by the explorer at every store-visible point within 2H, one environment action at every store-visible point within 3H; plus the C07 vacancy scenario and the C09 stop-of-a-leader and slow-Create scenarios; the claim (IsLeader => live record names the instance and carries its token) is checked inside the Metrics.SetIsLeader callback at every flag change and at the end"},
    "outside": "latencies of H/2 and above; preemption (excluded by the statement); more than one environment action per run; 'at most one leader' is the corollary of per-instance claim-backing (a record names one instance) stated in DESIGN section 3, not a two-real-instance exploration",
    "assumptions": ["other instances are represented by the environment thread obeying the protocol (assume-guarantee, DESIGN section 3)"],
    "level_text": "The real acquisition, heartbeat and stop code runs under a symbolic clock with symbolic H, TTL and latencies (TTL margin as a linear-arithmetic obligation) and under explorer-placed stop/restart/environment actions; the claim-backing invariant is asserted at every change of the leadership flag, not on a sampling grid.",
    "level_note": "One real instance + environment; reductions R1/R2; bounded windows.",
}
PROPS["C01"] = {
    "groups": [{"run": "^vpH_C01_T_|^vpH_C10_T_(safety|late_round_sees_preemptor)$|^vpH_C08_T_causes$|^vpH_C09_T_stop_leader$|^vpH_C07_T_leftover$|^vpH_C05_T_(terms|late_create)$|^vpH_C13_T_rewrite$"}],
    "bounds": {"quick": "every successful mutation issued by the real instance in the scenario families C01 (leader preempted by a priority-9 participant and shut down with DeleteKey, both at explorer-chosen store-visible points; takeover-enabled leader with watcher and acquisition rounds around it preempted at any point), C10 safety (symbolic priorities, interfering third party), C08 (every cause of term end, two terms), C09 (stop variants at every point), C07 (vacancy during a leftover round) is audited against the four allowed forms over the store's complete mutation log; every operation's key argument must equal the group; static cross-check that every function containing a KeyValue.Create/Update/Delete call site was executed"},
    "outside": "several groups in one bucket run concurrently (the key argument is checked per operation instead); more than one real instance (environment writers obey the guarantee being checked)",
    "assumptions": [],
    "level_text": "Guarantee G of the assume-guarantee argument: one real instance against an environment that itself obeys G; the store stub logs every mutation with caller, expected revision, outcome and previous owner, and the audit is evaluated on every explored path of the listed families.",
    "level_note": "Relative to the reference store; bounded families; reductions R1/R2.",
}
PROPS["C05"] = {
    "groups": [{"run": "^vpH_C05_T_|^vpH_C08_T_causes$|^vpH_C01_T_preempted$|^vpH_C07_T_leftover$|^vpH_C03_T_changed$"}],
    "bounds": {"quick": "three terms of one takeover-enabled instance (preemption of a lower-priority owner; Create after being preempted, with the preemptor leaving either after 1.5 heartbeats or within the same heartbeat interval; restart), plus the C08 family (two terms, every cause of term end), the C01 preemption family and the C07 vacancy family; over the store's complete version log: the token of every acquisition by the instance never appeared before, every refresh repeats the token and identity of the version it replaces; the OnPromote argument and Token()/Status().Token at quiescent points equal the record's token"},
    "outside": "uniqueness across instances rests on the UUID assumption (uuid.New() modelled as pairwise distinct fresh strings); more than three terms",
    "assumptions": ["uuid.New().String() returns a value distinct from every earlier one"],
    "level_text": "Every explored path of the listed scenario families ends with an audit of the complete record history kept by the reference store, so token freshness and constancy are checked on every version ever written, for every schedule in the bound.",
    "level_note": "UUID uniqueness assumed; bounded families; reductions R1/R2.",
}
PROPS["C18"] = {
    "groups": [{"run": "^vpH_C18_T_|^vpH_C08_T_|^vpH_C09_T_stop_(leader|slow_create|twice|window|after_cancel)$|^vpH_C07_T_(stale_events|stale_read_changed)$"}],
    "bounds": {"quick": "Status() is evaluated at every quiescent point of the C08 family (every cause of term end, two terms, recording Metrics) and after the return of every stop of the C09 stop-of-a-leader / slow-Create / repeated-stop scenarios: IsLeader <=> State == LEADER, State in the documented set, a leader's LeaderID / Token / Revision equal its id, its term token and the revision of its latest successful write in the store, STOPPED with IsLeader false after a stop, last SetIsLeader value == IsLeader(), IncTransitions calls form a chain starting at CANDIDATE; follower harness: LeaderID converges to the id in the live record across a change of owner, with watch events delivered or lost"},
    "outside": "snapshots taken in the middle of a transition (Status() holds the read lock; torn reads of several atomics by lock-free readers are not explored, reduction R1)",
    "assumptions": [],
    "level_text": "The real Status(), metrics calls and state transitions run inside the explored scenario families; consistency of each snapshot and of the recorded metric stream is asserted at every quiescent point of every path.",
    "level_note": "Quiescent-point snapshots only; bounded families; reductions R1/R2.",
}
PROPS["C06"] = {
    "groups": [{"run": "^vpH_C06_T_|^vpH_C12_T_health$"}],
    "bounds": {"quick": "one real follower (watcher, 500ms periodic check, acquisition rounds with symbolic jitter and backoff draws) next to a live foreign record; no watch notification of the vacancy is ever delivered; vacancy by deletion at a symbolic instant in [0,900ms] or by silent expiry (crash of the owner); store latency zero: leader by vacancy + 600ms. No-give-up: Watch() fails once or twice, or the watch channel is closed by the server after the initial value; 2s later (faults over) a vacancy occurs without notification: leader within 1.1s"},
    "outside": "unbounded liveness is replaced by the explicit bounds; several competing real candidates (the bound is per healthy candidate; competitors are environment); store latencies above zero (they add to the bound)",
    "assumptions": [],
    "level_text": "The follower-side code runs under a symbolic clock: the vacancy instant and every jitter/backoff draw are solver variables, and the deadline 'leader by vacancy + 500ms + 100ms' is a linear-arithmetic obligation decided on every path; permanence of the periodic check after transient Watch failures is checked by a later vacancy.",
    "level_note": "One real candidate; reductions R1/R2; bounded windows.",
}
PROPS["C11"] = {
    "groups": [{"run": "^vpH_C11_T_", "args": ["-timeout-ms", "30000"]}],
    "bounds": {"quick": "a leader built with a provider exposing an (unconnected) *nats.Conn: the real natsConnectionMonitor and disconnectHandler are wired and notifications are injected through the handlers the monitor registered on the Conn, one at a time; 1-3 notifications (disconnect first, then disconnect/reconnect: flapping) at symbolic gaps in [0,3s]; grace period default (max(3H,5s)) or symbolic in [2H,4H], H=10s; store healthy. Reconnect verification: record untouched / another owner / later incarnation with the same id / arbitrary bytes during an outage of symbolic length below one heartbeat. Stop/StopWithContext placed at every point of a disconnect -> grace-expiry sequence, including inside the expiry handler (the Logger passed in the configuration is a scheduling point for two log lines)"},
    "outside": "more than three notifications (five in the thorough tier); Closed notifications other than during the grace period and after a completed stop; store partitions during the outage (then the heartbeat path demotes first: C03); concurrent dispatch of notifications (nats.go dispatches connection callbacks from one goroutine: assumption)",
    "assumptions": ["connection callbacks are dispatched one at a time", "the three nats.Conn.Set*Handler methods are interpreted from their own SSA on a zero nats.Conn"],
    "level_text": "The real monitor, disconnect handler, reconnect verification and stop code run symbolically with notification instants and the grace period as solver variables: 'never demoted by the grace mechanism before lastDisconnect+G' and 'demoted exactly then' are linear-arithmetic obligations checked at the flag change itself; deadlocks (self-lock, lock-order cycles that the explored schedules hit) and crashes are executor events.",
    "level_note": "Bounded notification sequences; reductions R1/R2 with the Logger as an additional switch point inside the handlers' critical sections.",
}
PROPS["C14"] = {
    "groups": [{"run": "^vpH_C14_"}],
    "bounds": {"quick": "adapter layer only: natsKeyValueAdapter.{Create,Update,Get,Delete,Watch}, natsEntryAdapter, natsWatcherAdapter.{Updates,Stop} against a stub of nats.KeyValue / nats.KeyWatcher: key (string), value (abstract bytes), revisions and results symbolic, success or error; the watcher emits every sequence of 1-4 entries / nil markers, optionally closes, and the consumer calls Updates() before every receive"},
    "outside": "THE JETSTREAM HALF OF THE PROPERTY: that a real JetStream KV bucket (nats.go client + nats-server, ~10^5 lines behind sockets and timers) implements create-if-absent, revision-checked update, get-latest and ordered watch, and that the reference store used by the other checks coincides with it, cannot be encoded by this technique and is ASSUMED; the claim is limited to 'the adapter adds nothing and loses nothing'",
    "assumptions": ["JetStream KV semantics = the reference store stub (DESIGN 2.4, appendix F)"],
    "level_text": "Partial claim. The adapter methods are executed symbolically against a stub client: each issues exactly one call of the corresponding client method with identical arguments and returns its results unchanged; every emitted watch sequence within the bound is received exactly once, in order, through one channel with at most one forwarding goroutine.",
    "level_note": "Adapter layer only; the store contract of JetStream itself is an assumption of every other check, not something this check decides.",
}
PROPS["C20"] = {
    "groups": [{"run": "^vpH_C20_T_"}],
    "bounds": {"quick": "three scenario families with happens-before tracking switched on: (1) Status/IsLeader/Token/LeaderID/ValidateToken/ValidateTokenOrDemote and OnPromote/OnDemote registration against heartbeat, validation, watcher and a demotion; (2) Stop / StopWithContext and restart, placed by the explorer, against disconnect/reconnect/disconnect notifications and the grace timer; (3) Stop / StopWithContext placed by the explorer against a follower's acquisition round, callback registration and Status; tracked memory: every plain (non-atomic) field of kvElection, disconnectHandler and natsConnectionMonitor, local variables of library functions captured by closures, backing arrays made by library code, *rand.Rand objects, and sync.WaitGroup values that are overwritten while in use"},
    "outside": "races inside dependencies; torn multi-word observations; accesses ordered only by sequentially consistent atomics are treated as ordered (Go memory model for sync/atomic)",
    "assumptions": ["happens-before edges: go statement, channel send/receive/close, mutex unlock->lock, WaitGroup Done->Wait, atomic store->load of the same cell, sync.Once, timer creation->callback, context cancel->Done/Err observed"],
    "level_text": "Vector-clock happens-before tracking inside the executor: two conflicting plain accesses to a tracked field that are unordered on any explored path are a race event, identified by field and the pair of accessing functions, independent of where exactly the explorer scheduled them; the deciding evidence is this happens-before analysis on a replayable path; a native replay of the scenario under the Go race detector (go test -race) is attempted once per reported pair and its outcome recorded, but the harness stubs and the replay baton add synchronisation of their own, so a silent detector is not taken as a refutation.",
    "level_note": "Race events only for the tracked structs; bounded scenario families; the executor's model of the synchronisation primitives is trusted.",
}
PROPS["S00"] = {"groups": [{"run": "^vpH_S00_"}], "level_text": "engine smoke test", "level_note": ""}

NOT_APPLICABLE = {}

# scenario families added after the unseen seeded rounds (appended to the quick bound text of each property)
_ADD2 = {
    "C01": "; a Create whose answer arrives 300 ms late while a priority-30 instance preempts the new record (refreshes go against the instance's own revision)",
    "C03": "; every refresh failing at once with a flapping health checker (never two unhealthy in a row: the failure count is not restarted by health verdicts); every refresh failing at once and every read hanging with the periodic validation at the heartbeat interval (demotion at the completion of the third failed attempt)",
    "C05": "; two election objects with the same InstanceID one after the other on one store (a restarted process)",
    "C06": "; H = 100 ms against a healthy store needing 80 ms per operation; a vacancy during a 1.5 s write outage (filled within 700 ms of the recovery)",
    "C07": "; validation_slow also with H = 20 s and answers after 6 s",
    "C08": "; a log sink taking up to 700 ms on the leader_demoted line while the instance is re-elected; the Start context cancelled at the leader_promoted log line",
    "C09": "; Stop returns within its own 5 s while a periodic read is swallowed by the store for 9 s",
    "C12": "; H = 40 ms with checks taking 150 ms (first three verdicts explorer-chosen); a disconnect/reconnect blip with successful verification inside an unhealthy streak",
    "C13": "; struct-decoding failures are *json.UnmarshalTypeError for valid JSON and *json.SyntaxError otherwise",
    "C14": "; deletion markers among the emitted entries (delivered as entries with an empty value and their revision); entries kept by the consumer do not change afterwards",
    "C10": "; a priority-9 preemption right after one of the reads of a reconnect verification (connection monitoring on)",
    "C17": "; one acquisition round of a takeover-enabled candidate against a record that is deleted after each refused Create and re-created after each read",
    "C20": "; StopWithContext{DeleteKey, Timeout 300 ms} against a Delete answered after 600 ms",
    "C11": "; the flapping scenario also with verification reads whose answers travel 300 ms",
    "C18": "; a 500 ms OnDemote callback during which the instance wins the record again",
    "C19": "; connection-loss demotion (grace expiry) and a successful reconnect verification, with a promotion callback blocked on its context",
}
_ADD = {
    "C01": "; plus the C05 term histories (three terms; a slow second Create after a purge), the C13 follower next to foreign bytes then a vacancy, and the C10 late-round scenario; a refresh must also repeat the token",
    "C02": "; H from 1 ms; plus a restart while a Create of the previous run is in flight (every Create 300 ms, TTL 3H, claim checked more than a TTL later) and the C07 stale-read scenario with a change of leader",
    "C03": "; plus: one refresh answered with an error only after the time-out, then the record replaced (at most one attempt issued between the change and the demotion); the record replaced and the store silent from the next read on; the outage of H=1s with an arbitrary (symbolic) error text on every failing operation",
    "C04": "; plus two terms of one election object both ended by a validation the application asks for (and by four other causes)",
    "C05": "; plus: two acquisition rounds with Create latencies 150 ms and {0.3, 1.3, 2.3} s and a purge placed by the explorer; a demotion (ValidateTokenOrDemote with a failing read) placed by the explorer inside a heartbeat tick's health check; two takeover rounds of one instance with the first round's read answered 300 ms late",
    "C06": "; plus: a second vacancy after the instance's own term; a restart with a stuck periodic read; a vacancy after a disconnect/reconnect blip seen by the follower (connection monitoring on); re-election after a health demotion (C12 family)",
    "C07": "; plus: periodic validation next to heartbeats with latencies below H/2 (H=1s) and with H=10s and answers after 3 s / just under 5 s; a periodic-check read (150 ms) answered after the instance won the vacancy, with and without a change of leader in between; a follower whose log sink takes up to 200 ms on the leader_changed line while its acquisition round wins; a leader of priority 10 (takeover off) next to a rule-abiding takeover-enabled starter of priority 5",
    "C08": "; plus: deletion observed through the watcher; two terms ended by the same cause; restart while a Create of the previous run is in flight; a second Start on a running leader; Stop racing the grace-period expiry inside the expiry handler (C11 family)",
    "C09": "; plus: every watcher the store handed out is stopped after the stop; a reconnect notification placed at every switch point of a running stop call (no store operation after the return)",
    "C10": "; priorities up to 2^62; plus a late acquisition round of a leader that was preempted by a higher priority meanwhile (Create latencies 150/600 ms)",
    "C11": "; plus: flapping while the first reconnect verification is inside its critical section (second disconnect, change of owner, second reconnect placed by the explorer); a new term acquired inside the grace period of an earlier disconnect; a reconnect notification against a running stop; one or two late notifications of any kind (disconnect / reconnect / closed), queued on the client's dispatcher before the monitor unregistered its handlers, delivered after a completed Stop or StopWithContext",
    "C12": "; a term re-acquired inside the heartbeat interval in which the previous one ended (one check per interval); after a health demotion the record is removed and the instance must lead again; a checker that ignores its context and answers after 150 ms (explorer's choice per tick), thresholds 1 and 2",
    "C13": "; plus a leader that followed before (watch loop running) whose record is overwritten with arbitrary bytes: demoted once, Status and Stop return",
    "C14": "; plus: the consumer takes 0..n of up to 4 emitted entries (with or without ever calling Updates) and stops the watch: no forwarding goroutine is left",
    "C17": "; zero-backoff configurations (InitialBackoff 0, zero-value BackoffConfig)",
    "C18": "; plus: the watch channel closed while the record has silently lapsed (re-election won, or lost to a third instance that keeps the record); an ex-leader whose watch stream stays silent; ValidateTokenOrDemote placed at every switch point of a running Stop / StopWithContext (Metrics calls are scheduling points)",
    "C19": "; plus a second Start on a running leader (ErrAlreadyStarted must not touch the term)",
    "C20": "; plus: a restart after a stop that gave up waiting for a slow OnPromote callback (plain overwrite of a WaitGroup vs. its users); a Logger is configured (backing arrays made by library code are tracked, append writes into spare capacity); two acquisition rounds in flight (a *rand.Rand would be a tracked object)",
}
for _k, _v in _ADD.items():
    if _k in PROPS and "bounds" in PROPS[_k] and "quick" in PROPS[_k]["bounds"]:
        PROPS[_k]["bounds"]["quick"] += _v + _ADD2.get(_k, "")

_ADD_THOROUGH = {
    "C11": "as quick plus: up to five notifications in the grace scenario; late notifications after all four stop variants (DeleteKey, WaitForDemote), up to three of them at symbolic gaps in [0,3s]",
    "C10": "as quick plus: the third party writes twice (two symbolic priorities), each write at any store-operation leg of the candidate",
    "C14": "as quick plus: emitted sequences of up to 7 entries / markers",
    "C17": "as quick plus: circuit-breaker call sequences for thresholds up to 5 (up to 12 calls with symbolic gaps)",
    "C13": "as quick plus: a well-formed record of symbolic priority rewritten with arbitrary bytes at any store-operation leg of a takeover-enabled candidate",
    "C02": "as quick plus: the environment performs two protocol-conforming actions (the second a symbolic delay after the first) around a StopWithContext{DeleteKey} placed by the explorer",
}
for _k, _v in _ADD_THOROUGH.items():
    if _k in PROPS and "bounds" in PROPS[_k] and not PROPS[_k]["bounds"].get("thorough"):
        PROPS[_k]["bounds"]["thorough"] = _v
