"""Per-property harness groups, bounds and assumptions (read by bin/check)."""

COMMON_ASSUMPTIONS = [
    "front end: go/packages + go/ssa (x/tools v0.50.0) build the SSA of /repo/leader from the current working tree on every run; the SSA builder and go/types are trusted",
    "executor gosym interprets that SSA over SMT terms; integers are mathematical Int terms with a solver-checked wrap-around normalisation at every arithmetic result; pointers, interfaces and slices are concrete",
    "decisions: every branch on a symbolic condition, every scheduler/select/timer-order choice and every assertion is decided by z3 4.8.12 (cvc5 for string theory); unknown/timeout is never counted as success",
    "context switches only at store-operation legs (stub yields), user-callback entry/exit, blocking operations and timer expiry; code between two such points of one goroutine executes atomically (reduction R1)",
    "computation takes zero virtual time; timers fire at their deadline once no goroutine is runnable (the testing/synctest model); store and callback latencies are explicit symbolic delays",
    "JetStream KV is the reference store stub written in Go in the harness (one linearizable register per key, last-sequence revisions, tombstones, MaxAge expiry); JetStream itself is not encoded",
    "encoding/json on arbitrary bytes is over-approximated by uninterpreted parse results; round-trips of the library's own payload are exact; uuid.New() yields pairwise distinct tokens; ctx.Value() is nil",
    "logging and zap field constructors are empty stubs; Metrics/Logger are nil or harness recorders",
]

Q = lambda *a: list(a)

PROPS = {
    "C16": {
        "groups": [{"run": "^vpH_C16_", "quick": [], "thorough": ["-timeout-ms", "60000"]}],
        "bounds": {"quick": "every ElectionConfig field symbolic; durations within +/-1 year (so 3*H and 2*H cannot wrap); Priority and MaxConsecutiveFailures within +/-10^6; strings arbitrary (equality with \"\" only); single call of NewElection, no loops"},
        "outside": "durations beyond one year (64-bit wrap of 3*H); Logger/Metrics/HealthChecker fields are nil",
        "assumptions": ["provider stub records whether JetStream()/KeyValue() were called"],
        "level_text": "All paths of NewElection -> newKVElection -> validateConfig are executed symbolically with every configuration field a solver variable; 'accepted iff the documented conjunction holds', 'error names an offending field' and 'nothing contacted or started before the error' are decided by z3 for all field values within the stated range, not for a lattice of samples.",
        "level_note": "Durations bounded to +/-1 year (beyond that 3*H wraps; stated outside the claim); string fields only tested for emptiness; trusted: go/ssa front end, the executor, z3.",
    },
}

PROPS["S00"] = {"groups": [{"run": "^vpH_S00_"}], "level_text": "engine smoke test", "level_note": ""}

NOT_APPLICABLE = {}
