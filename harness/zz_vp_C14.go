//go:build verif

package leader

import (
	"context"
	"errors"
	"time"

	"github.com/nats-io/nats.go"
)

// stub of the nats.go client interfaces underneath the library's adapter layer

type vpNCall struct {
	op    string
	key   string
	value []byte
	rev   uint64
}

type vpNEntry struct {
	key string
	val []byte
	rev uint64
	del bool // a delete marker (nats.go: Operation() == KeyValueDelete, empty value)
}

func (e *vpNEntry) Bucket() string             { return "b" }
func (e *vpNEntry) Key() string                { return e.key }
func (e *vpNEntry) Value() []byte              { return e.val }
func (e *vpNEntry) Revision() uint64           { return e.rev }
func (e *vpNEntry) Created() time.Time         { return time.Time{} }
func (e *vpNEntry) Delta() uint64              { return 0 }
func (e *vpNEntry) Operation() nats.KeyValueOp {
	if e.del {
		return nats.KeyValueDelete
	}
	return nats.KeyValuePut
}

type vpNWatcher struct {
	ch          chan nats.KeyValueEntry
	stopped     int
	closeOnStop bool // as nats.go: unsubscribing closes the updates channel
}

func (w *vpNWatcher) Context() context.Context             { return nil }
func (w *vpNWatcher) Updates() <-chan nats.KeyValueEntry   { return w.ch }
func (w *vpNWatcher) Stop() error {
	w.stopped++
	if w.closeOnStop && w.stopped == 1 {
		close(w.ch)
	}
	return nil
}
func (w *vpNWatcher) Error() <-chan error                  { return nil }

type vpNKV struct {
	calls   []vpNCall
	retRev  uint64
	retErr  error
	retEnt  nats.KeyValueEntry
	watcher *vpNWatcher
}

func (k *vpNKV) Get(key string) (nats.KeyValueEntry, error) {
	k.calls = append(k.calls, vpNCall{op: "Get", key: key})
	return k.retEnt, k.retErr
}
func (k *vpNKV) GetRevision(key string, revision uint64) (nats.KeyValueEntry, error) {
	k.calls = append(k.calls, vpNCall{op: "GetRevision", key: key})
	return nil, k.retErr
}
func (k *vpNKV) Put(key string, value []byte) (uint64, error) {
	k.calls = append(k.calls, vpNCall{op: "Put", key: key, value: value})
	return k.retRev, k.retErr
}
func (k *vpNKV) PutString(key string, value string) (uint64, error) {
	k.calls = append(k.calls, vpNCall{op: "PutString", key: key})
	return k.retRev, k.retErr
}
func (k *vpNKV) Create(key string, value []byte) (uint64, error) {
	k.calls = append(k.calls, vpNCall{op: "Create", key: key, value: value})
	return k.retRev, k.retErr
}
func (k *vpNKV) Update(key string, value []byte, last uint64) (uint64, error) {
	k.calls = append(k.calls, vpNCall{op: "Update", key: key, value: value, rev: last})
	return k.retRev, k.retErr
}
func (k *vpNKV) Delete(key string, opts ...nats.DeleteOpt) error {
	k.calls = append(k.calls, vpNCall{op: "Delete", key: key, rev: uint64(len(opts))})
	return k.retErr
}
func (k *vpNKV) Purge(key string, opts ...nats.DeleteOpt) error {
	k.calls = append(k.calls, vpNCall{op: "Purge", key: key})
	return k.retErr
}
func (k *vpNKV) Watch(keys string, opts ...nats.WatchOpt) (nats.KeyWatcher, error) {
	k.calls = append(k.calls, vpNCall{op: "Watch", key: keys, rev: uint64(len(opts))})
	if k.retErr != nil {
		return nil, k.retErr
	}
	return k.watcher, nil
}
func (k *vpNKV) WatchAll(opts ...nats.WatchOpt) (nats.KeyWatcher, error) {
	k.calls = append(k.calls, vpNCall{op: "WatchAll"})
	return nil, k.retErr
}
func (k *vpNKV) WatchFiltered(keys []string, opts ...nats.WatchOpt) (nats.KeyWatcher, error) {
	k.calls = append(k.calls, vpNCall{op: "WatchFiltered"})
	return nil, k.retErr
}
func (k *vpNKV) Keys(opts ...nats.WatchOpt) ([]string, error) { return nil, nil }
func (k *vpNKV) ListKeys(opts ...nats.WatchOpt) (nats.KeyLister, error) { return nil, nil }
func (k *vpNKV) History(key string, opts ...nats.WatchOpt) ([]nats.KeyValueEntry, error) {
	return nil, nil
}
func (k *vpNKV) Bucket() string                            { return "b" }
func (k *vpNKV) PurgeDeletes(opts ...nats.PurgeOpt) error  { return nil }
func (k *vpNKV) Status() (nats.KeyValueStatus, error)      { return nil, nil }

var vpErrNats = errors.New("nats: some failure")

// vpH_C14_passthrough: every adapter operation issues exactly one call of the corresponding client method
// with identical key, value and revision and returns the client's results unchanged (nil entry -> nil).
func vpH_C14_passthrough() {
	k := &vpNKV{watcher: &vpNWatcher{ch: make(chan nats.KeyValueEntry, 4)}}
	a := &natsKeyValueAdapter{kv: k}
	key := vpStr("key")
	val := vpRec("val")
	rev := uint64(vpInt64("rev"))
	ret := uint64(vpInt64("ret"))
	vpAssume(vpAnd(rev <= 1<<62, ret <= 1<<62))
	k.retRev = ret
	fails := vpChoose("fails", 2) == 1
	if fails {
		// every kind of client error must be passed through untouched, without a second client call
		switch vpChoose("error", 4) {
		case 0:
			k.retErr = vpErrNats
		case 1:
			k.retErr = nats.ErrKeyExists
		case 2:
			k.retErr = nats.ErrKeyNotFound
		case 3:
			k.retErr = nats.ErrKeyDeleted
		}
		k.retEnt = &vpNEntry{key: key, val: nil, rev: ret} // what a further Get would return: a live, empty value
	}
	op := vpChoose("op", 5)
	vpCover("C14.passthrough")
	switch op {
	case 0:
		r, err := a.Create(key, val, 3*time.Second)
		vpAssert("C14.passthrough", len(k.calls) == 1 && k.calls[0].op == "Create" && k.calls[0].key == key && vpSameBytes(k.calls[0].value, val))
		vpAssert("C14.passthrough:result", r == ret && (err != nil) == fails)
	case 1:
		r, err := a.Update(key, val, rev, 3*time.Second)
		vpAssert("C14.passthrough", len(k.calls) == 1 && k.calls[0].op == "Update" && k.calls[0].key == key && vpSameBytes(k.calls[0].value, val) && k.calls[0].rev == rev)
		vpAssert("C14.passthrough:result", r == ret && (err != nil) == fails)
	case 2:
		entKind := vpChoose("entry", 2)
		if entKind == 1 && !fails {
			k.retEnt = &vpNEntry{key: key, val: val, rev: ret}
		}
		if fails {
			k.retEnt = nil
		}
		e, err := a.Get(key)
		vpAssert("C14.passthrough", len(k.calls) == 1 && k.calls[0].op == "Get" && k.calls[0].key == key)
		vpAssert("C14.passthrough:result", (err != nil) == fails)
		if fails || entKind == 0 {
			vpAssert("C14.passthrough:result", e == nil)
		} else {
			vpAssert("C14.passthrough:result", e != nil && e.Key() == key && vpSameBytes(e.Value(), val) && e.Revision() == ret)
		}
	case 3:
		err := a.Delete(key)
		vpAssert("C14.passthrough", len(k.calls) == 1 && k.calls[0].op == "Delete" && k.calls[0].key == key && k.calls[0].rev == 0)
		vpAssert("C14.passthrough:result", (err != nil) == fails)
	case 4:
		w, err := a.Watch(key)
		vpAssert("C14.passthrough", len(k.calls) == 1 && k.calls[0].op == "Watch" && k.calls[0].key == key && k.calls[0].rev == 0) // no watch options: subsequent changes only
		vpAssert("C14.passthrough:result", (err != nil) == fails && (w == nil) == fails)
		if w != nil {
			w.Stop()
			vpAssert("C14.passthrough", k.watcher.stopped == 1)
		}
	}
}

// vpH_C14_T_watch: a consumer that calls Updates() before every receive (as watchLoop does) while the client's
// watcher emits a sequence of up to 4 entries / nil markers and then optionally closes: the consumer gets
// exactly that sequence, in order, once, through one stable channel, with at most one forwarding goroutine.
func vpH_C14_T_watch() { vpC14Watch(4) }

// thorough: up to 7 entries / markers
func vpH_C14_T_watch7() { vpC14Watch(7) }

func vpC14Watch(maxN int) {
	uw := &vpNWatcher{ch: make(chan nats.KeyValueEntry, 8)}
	a := &natsWatcherAdapter{watcher: uw}
	n := 1 + vpChoose("emitted", maxN)
	var sent []uint64 // 0 = nil marker
	for i := 0; i < n; i++ {
		switch vpChoose("kind", 3) {
		case 0:
			uw.ch <- &vpNEntry{key: "g", rev: uint64(i + 1)}
			sent = append(sent, uint64(i+1))
		case 1:
			uw.ch <- nil
			sent = append(sent, 0)
		default: // a deletion: delivered as an entry with an empty value and the marker's revision
			uw.ch <- &vpNEntry{key: "g", rev: uint64(i + 1), del: true}
			sent = append(sent, uint64(i+1))
		}
	}
	closes := vpChoose("closes", 2) == 1
	if closes {
		close(uw.ch)
	}
	var got []uint64
	var kept []Entry // the consumer keeps what it received: a delivered entry must not change afterwards
	var first <-chan Entry
	stable := true
	closedSeen := false
	for i := 0; i < n+1; i++ {
		ch := a.Updates()
		if first == nil {
			first = ch
		} else if ch != first {
			stable = false
		}
		select {
		case e, ok := <-ch:
			if !ok {
				closedSeen = true
			} else if e == nil {
				got = append(got, 0)
				kept = append(kept, nil)
			} else {
				got = append(got, e.Revision())
				kept = append(kept, e)
				vpAssert("C14.deletion-as-empty-value", len(e.Value()) == 0)
			}
		case <-time.After(time.Second):
		}
		if closedSeen {
			break
		}
	}
	vpQuiesce()
	vpCover("C14.watch")
	vpAssert("C14.one-channel", stable)
	vpAssert("C14.in-order-once", len(got) == len(sent))
	for i := range got {
		if i < len(sent) {
			vpAssert("C14.in-order-once", got[i] == sent[i])
		}
	}
	for i, e := range kept {
		if e != nil {
			vpAssert("C14.in-order-once:retained", e.Revision() == got[i])
		}
	}
	if closes {
		vpAssert("C14.close-propagates", closedSeen)
	}
	vpAssert("C14.one-forwarder", vpThreadsAlive() <= 1)
}

// vpH_C14_T_watch_stop: the client's watcher has emitted up to 4 entries; the consumer takes some of them
// (possibly none, possibly without ever calling Updates) and stops the watch. Whatever was still undelivered,
// nothing of the watch is left behind: no forwarding goroutine survives the stop (watch cycles do not
// accumulate goroutines), and the client's watcher was stopped exactly once.
func vpH_C14_T_watch_stop() {
	uw := &vpNWatcher{ch: make(chan nats.KeyValueEntry, 8), closeOnStop: true}
	a := &natsWatcherAdapter{watcher: uw}
	n := vpChoose("emitted", 5)
	for i := 0; i < n; i++ {
		uw.ch <- &vpNEntry{key: "g", rev: uint64(i + 1)}
	}
	taken := vpChoose("taken", n+1)
	next := uint64(1)
	for i := 0; i < taken; i++ {
		select {
		case e := <-a.Updates():
			vpAssert("C14.in-order-once", e != nil && e.Revision() == next)
			next++
		case <-time.After(time.Second):
			vpAssert("C14.in-order-once", false)
		}
	}
	if taken == 0 && vpChoose("peek", 2) == 1 {
		_ = a.Updates()
	}
	vpQuiesce()
	a.Stop()
	time.Sleep(time.Second)
	vpQuiesce()
	vpCover("C14.watch-stop")
	vpAssert("C14.passthrough", uw.stopped == 1)
	vpAssert("C14.no-goroutine-left", vpThreadsAlive() == 0)
}
