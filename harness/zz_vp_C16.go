//go:build verif

package leader

import "time"

// recording provider: counts contacts with the store layer
type vpRecProvider struct {
	jsCalls, kvCalls int
}
type vpRecJS struct{ p *vpRecProvider }

func (p *vpRecProvider) JetStream() (JetStreamContext, error) {
	p.jsCalls++
	return &vpRecJS{p}, nil
}
func (j *vpRecJS) KeyValue(bucket string) (KeyValue, error) {
	j.p.kvCalls++
	return &vpNullKV{}, nil
}

type vpNullKV struct{}

func (*vpNullKV) Create(key string, value []byte, opts ...interface{}) (uint64, error) {
	vpAssert("C16.nothing-started", false)
	return 0, nil
}
func (*vpNullKV) Update(key string, value []byte, rev uint64, opts ...interface{}) (uint64, error) {
	vpAssert("C16.nothing-started", false)
	return 0, nil
}
func (*vpNullKV) Get(key string) (Entry, error) {
	vpAssert("C16.nothing-started", false)
	return nil, nil
}
func (*vpNullKV) Delete(key string) error {
	vpAssert("C16.nothing-started", false)
	return nil
}
func (*vpNullKV) Watch(key string, opts ...interface{}) (Watcher, error) {
	vpAssert("C16.nothing-started", false)
	return nil, nil
}

const vpYear = 365 * 24 * time.Hour

func vpSymConfig() ElectionConfig {
	cfg := ElectionConfig{
		Bucket:                 vpStr("bucket"),
		Group:                  vpStr("group"),
		InstanceID:             vpStr("instance"),
		TTL:                    time.Duration(vpInt64("ttl")),
		HeartbeatInterval:      time.Duration(vpInt64("hb")),
		ValidationInterval:     time.Duration(vpInt64("vi")),
		DisconnectGracePeriod:  time.Duration(vpInt64("dgp")),
		MaxConsecutiveFailures: vpInt("mcf"),
		Priority:               vpInt("prio"),
		AllowPriorityTakeover:  vpBool("takeover"),
	}
	return cfg
}

// vpDocumentedValid is the documented acceptance rule of C16, written independently of validateConfig.
func vpDocumentedValid(cfg ElectionConfig) bool {
	ok := vpAnd(cfg.Bucket != "", vpAnd(cfg.Group != "", cfg.InstanceID != ""))
	ok = vpAnd(ok, vpAnd(cfg.TTL > 0, cfg.HeartbeatInterval > 0))
	ok = vpAnd(ok, cfg.TTL >= 3*cfg.HeartbeatInterval)
	ok = vpAnd(ok, vpOr(cfg.ValidationInterval == 0, cfg.ValidationInterval >= cfg.HeartbeatInterval))
	ok = vpAnd(ok, vpOr(cfg.DisconnectGracePeriod == 0, cfg.DisconnectGracePeriod >= 2*cfg.HeartbeatInterval))
	ok = vpAnd(ok, cfg.MaxConsecutiveFailures >= 0)
	ok = vpAnd(ok, vpImplies(cfg.AllowPriorityTakeover, cfg.Priority > 0))
	return ok
}

func vpInYear(d time.Duration) bool { return vpAnd(d >= -vpYear, d <= vpYear) }

// vpH_C16_validation: NewElection succeeds iff the documented rule holds; on failure the error
// names an offending field and nothing was contacted or started. All fields symbolic.
func vpH_C16_validation() {
	cfg := vpSymConfig()
	vpAssume(vpAnd(vpInYear(cfg.TTL), vpAnd(vpInYear(cfg.HeartbeatInterval), vpAnd(vpInYear(cfg.ValidationInterval), vpInYear(cfg.DisconnectGracePeriod)))))
	vpAssume(vpAnd(cfg.Priority >= -1000000, cfg.Priority <= 1000000))
	vpAssume(vpAnd(cfg.MaxConsecutiveFailures >= -1000000, cfg.MaxConsecutiveFailures <= 1000000))
	documented := vpDocumentedValid(cfg)
	vpSetOpt("float-rounding", 1) // validation written with float64 arithmetic would be subject to rounding
	p := &vpRecProvider{}
	e, err := NewElection(p, cfg)
	if err == nil {
		vpCover("C16.accepted")
		// one obligation per documented rule, so that each accepted-but-invalid field is its own finding
		H := cfg.HeartbeatInterval
		vpAssert("C16.iff:accepts-empty-name", vpAnd(cfg.Bucket != "", vpAnd(cfg.Group != "", cfg.InstanceID != "")))
		vpAssert("C16.iff:accepts-nonpositive-TTL-or-H", vpAnd(cfg.TTL > 0, H > 0))
		vpAssert("C16.iff:accepts-TTL-below-3H", cfg.TTL >= 3*H)
		vpAssert("C16.iff:accepts-bad-ValidationInterval", vpOr(cfg.ValidationInterval == 0, cfg.ValidationInterval >= H))
		vpAssert("C16.iff:accepts-bad-DisconnectGracePeriod", vpOr(cfg.DisconnectGracePeriod == 0, cfg.DisconnectGracePeriod >= 2*H))
		vpAssert("C16.iff:accepts-negative-MaxConsecutiveFailures", cfg.MaxConsecutiveFailures >= 0)
		vpAssert("C16.iff:accepts-takeover-without-priority", vpImplies(cfg.AllowPriorityTakeover, cfg.Priority > 0))
		vpAssert("C16.election-returned", e != nil)
		vpAssert("C16.nothing-started", vpThreadsAlive() == 0)
		return
	}
	vpCover("C16.rejected")
	vpAssert("C16.iff:rejects-valid", vpNot(documented))
	vpAssert("C16.before-contact", p.jsCalls == 0 && p.kvCalls == 0)
	vpAssert("C16.nothing-started", vpThreadsAlive() == 0)
	ve, isVE := err.(*ValidationError)
	vpAssert("C16.field-offending", isVE)
	if !isVE {
		return
	}
	H := cfg.HeartbeatInterval
	switch ve.Field {
	case "Bucket":
		vpAssert("C16.field-offending", cfg.Bucket == "")
	case "Group":
		vpAssert("C16.field-offending", cfg.Group == "")
	case "InstanceID":
		vpAssert("C16.field-offending", cfg.InstanceID == "")
	case "TTL":
		vpAssert("C16.field-offending", vpOr(cfg.TTL <= 0, cfg.TTL < 3*H))
	case "HeartbeatInterval":
		vpAssert("C16.field-offending", H <= 0)
	case "ValidationInterval":
		vpAssert("C16.field-offending", vpAnd(cfg.ValidationInterval != 0, cfg.ValidationInterval < H))
	case "DisconnectGracePeriod":
		vpAssert("C16.field-offending", vpAnd(cfg.DisconnectGracePeriod != 0, cfg.DisconnectGracePeriod < 2*H))
	case "MaxConsecutiveFailures":
		vpAssert("C16.field-offending", cfg.MaxConsecutiveFailures < 0)
	case "Priority":
		vpAssert("C16.field-offending", vpAnd(cfg.AllowPriorityTakeover, cfg.Priority <= 0))
	default:
		vpAssert("C16.field-offending", false)
	}
}
