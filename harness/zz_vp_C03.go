//go:build verif

package leader

import (
	"context"
	"time"
)

type vpTiming struct{ H, TTL time.Duration }

var vpTimings = []vpTiming{{time.Second, 3 * time.Second}, {4 * time.Second, 12 * time.Second}, {200 * time.Millisecond, 10 * time.Second}}

func vpUpdateTimeout(H time.Duration) time.Duration {
	to := H / 2
	if to < time.Second {
		to = time.Second
	}
	return to
}

var vpStartCtx context.Context // when set, the context handed to Start by vpLeadingInstance

type vpLeaderScn struct {
	st      *vpStore
	kv      *vpKV
	e       *kvElection
	cb      *vpCallbacks
	H, to   time.Duration
	demoted chan struct{}
}

// vpLeadingInstance builds one election through the real constructor, starts it and lets it win.
// vpCbTemplate: callbacks object (with its blocking behaviour preset) used by the next vpLeadingInstance
var vpCbTemplate *vpCallbacks

func vpLeadingInstance(tm vpTiming, lat time.Duration, mod func(cfg *ElectionConfig)) *vpLeaderScn {
	s := &vpLeaderScn{H: tm.H, to: vpUpdateTimeout(tm.H), demoted: make(chan struct{}, 4)}
	s.st = vpNewStore("g", tm.TTL)
	s.st.dialect = vpChoose("dialect", 2)
	s.kv = vpHandle(s.st, "a")
	cfg := vpBaseConfig("a", tm.H, tm.TTL)
	cfg.ValidationInterval = time.Hour // periodic validation is C04's subject; keep its ticker out of the way
	if mod != nil {
		mod(&cfg)
	}
	s.e = vpMustNew(&vpProvider{s.kv}, cfg)
	s.cb = &vpCallbacks{}
	if vpCbTemplate != nil {
		s.cb = vpCbTemplate
		vpCbTemplate = nil
	}
	s.cb.onDemoteFn = func() { s.demoted <- struct{}{} }
	s.cb.install(s.e)
	sctx := vpRootCtx()
	if vpStartCtx != nil {
		sctx = vpStartCtx
	}
	_ = s.e.Start(sctx)
	vpQuiesce()
	vpAssert("harness.leader-after-start", s.e.IsLeader())
	s.kv.lat = lat
	return s
}

// vpH_C03_T_changed: the leader's record is replaced or deleted underneath it at a symbolic instant;
// it must stop claiming leadership and run OnDemote by tc + H + 2*timeout.
func vpH_C03_T_changed() {
	tm := vpTimings[vpChoose("timing", 2)]
	s := vpLeadingInstance(tm, 0, nil)
	s.kv.lat = s.to - 1 // request latency below the time-out; the response leg is immediate
	s.kv.opLeft = 6
	tc := int64(-1)
	kind := vpChoose("change", 3)
	go func() {
		vpDelay("change", 0, 2*tm.H+tm.H/2)
		tc = vpNow()
		if kind == 0 {
			s.st.write("env:other", "update", vpRecMk("other", "tok-other", 0), false, s.st.lastSeq)
		} else if kind == 2 {
			// a later incarnation with the same instance id but its own token took the record
			s.st.write("env:a2", "update", vpRecMk("a", "tok-later", 0), false, s.st.lastSeq)
		} else {
			s.st.write("env:other", "delete", nil, true, 0)
		}
		vpEvent("changed", kind)
	}()
	select {
	case <-s.demoted:
	case <-time.After(3*tm.H + tm.H/2 + tm.H + 2*s.to + time.Second):
	}
	vpCover("C03.changed")
	vpAssert("C03.demote-after-change", tc >= 0 && s.cb.demotes >= 1 && !s.e.IsLeader())
	vpAssert("C03.demote-after-change:bound", vpImplies(s.cb.demotes >= 1, s.cb.demoteAt <= tc+int64(tm.H+2*s.to)))
	vpAuditLog(s.st, "a", false, 0, false)
}

// vpH_C03_T_changed_after_slow: one refresh (explorer's choice) is answered with an error only after the
// operation time-out has passed (the loop has given up on it by then); later the record is replaced. The
// leader steps down by the completion of the first attempt it issues after the change (at most one refresh is
// issued between the change and the demotion), within tc + H + 2*timeout.
func vpH_C03_T_changed_after_slow() {
	tm := vpTimings[0]
	s := vpLeadingInstance(tm, 0, nil)
	s.kv.opLeft = 8
	s.kv.faults = []int{vpFaultHang}
	s.kv.hangLat = s.to + 300*time.Millisecond
	s.kv.faultLeft = 1
	s.kv.faultOps = "update"
	tc := int64(-1)
	go func() {
		vpDelay("change", tm.H+tm.H/2, 3*tm.H+tm.H/2)
		tc = vpNow()
		s.kv.faultLeft = 0
		s.st.write("env:other", "update", vpRecMk("other", "tok-other", 0), false, s.st.lastSeq)
		vpEvent("changed")
	}()
	select {
	case <-s.demoted:
	case <-time.After(4*tm.H + tm.H + 2*s.to + time.Second):
	}
	vpCover("C03.changed-after-slow")
	if tc < 0 {
		vpEndPath("demoted-before-change") // three failures in a row are the other clause's business
	}
	vpAssert("C03.demote-after-change", s.cb.demotes >= 1 && !s.e.IsLeader())
	vpAssert("C03.demote-after-change:bound", vpImplies(s.cb.demotes >= 1, s.cb.demoteAt <= tc+int64(tm.H+2*s.to)))
	after := 0
	for _, is := range s.st.issued {
		if is.by == "a" && is.op == "update" && is.at > tc { // strictly later: an attempt issued at the very instant of the change may have preceded it
			after++
		}
	}
	vpAssert("C03.demote-after-change:next-attempt", after <= 1)
}

// vpH_C03_T_changed_then_cut: the record is replaced at a symbolic instant and the store stops answering right
// after it has rejected the leader's next refresh (the read the leader may make to find out who took over is
// never answered): the leader still steps down by tc + H + 2*timeout.
func vpH_C03_T_changed_then_cut() {
	tm := vpTimings[0]
	s := vpLeadingInstance(tm, 0, nil)
	s.kv.opLeft = 6
	tc := int64(-1)
	go func() {
		vpDelay("change", 0, tm.H+tm.H/2)
		tc = vpNow()
		s.st.write("env:other", "update", vpRecMk("other", "tok-other", 0), false, s.st.lastSeq)
		vpEvent("changed")
	}()
	s.kv.beforeIssue = func(op string) {
		if op == "get" && tc >= 0 {
			s.st.cut = true
		}
	}
	select {
	case <-s.demoted:
	case <-time.After(2*tm.H + tm.H + 2*s.to + time.Second):
	}
	vpCover("C03.changed-then-cut")
	vpAssert("C03.demote-after-change", tc >= 0 && s.cb.demotes >= 1 && !s.e.IsLeader())
	vpAssert("C03.demote-after-change:bound", vpImplies(s.cb.demotes >= 1, s.cb.demoteAt <= tc+int64(tm.H+2*s.to)))
}

// vpH_C03_T_unreachable: from a symbolic instant on the store is unreachable (every operation fails after
// a symbolic delay or never answers, applied or not); demotion by the end of the third consecutive
// failed attempt and within 3H + 3*timeout of the start of the last successful refresh.
func vpH_C03_T_unreachable() {
	tm := vpTimings[vpChoose("timing", 2)]
	vpC03Unreachable(tm)
}

// the H=200ms configuration (time-out 1s = 5H), thorough tier
func vpH_C03_T_unreachable_fast() { vpC03UnreachableW(vpTimings[2], vpUpdateTimeout(vpTimings[2].H)) }

func vpC03Unreachable(tm vpTiming) { vpC03UnreachableW(tm, 0) }

// vpH_C03_T_unreachable_anyerr: as unreachable (H = 1 s), but the failing operations report an error with an
// arbitrary text (one symbolic string per run, classified by the library's text matching): whatever the client
// library calls the failure, the leader steps down by its third consecutive failed attempt.
func vpH_C03_T_unreachable_anyerr() {
	vpC03SymErr = true
	vpC03UnreachableW(vpTimings[0], 0)
}

var vpC03SymErr bool

// vpH_C03_T_unreachable_validating: every refresh fails at once and every read hangs, from the start; the
// periodic validation runs at the heartbeat interval (its reads hang until their own time-out). The leader steps
// down at the completion of its third consecutive failed refresh — a validation read in flight does not
// postpone that.
func vpH_C03_T_unreachable_validating() {
	tm := vpTimings[0]
	s := vpLeadingInstance(tm, 0, func(cfg *ElectionConfig) { cfg.ValidationInterval = tm.H })
	s.st.ttl = 0
	s.kv.faults = []int{vpFaultErr}
	s.kv.faultLeft = 100
	s.kv.faultOps = "update"
	s.kv.faultForce = true
	s.kv.hangGets = true
	select {
	case <-s.demoted:
	case <-time.After(8*tm.H + tm.H/2):
	}
	vpCover("C03.unreachable-validating")
	third := int64(-1)
	n := 0
	for _, is := range s.st.issued {
		if is.by == "a" && is.op == "update" {
			n++
			if n == 3 {
				third = is.at
			}
		}
	}
	vpAssert("C03.demote-after-3", s.cb.demotes >= 1 && !s.e.IsLeader())
	vpAssert("C03.demote-after-3:attempts", n <= 3)
	vpAssert("C03.demote-after-3:at-completion", vpImplies(s.cb.demotes >= 1 && third >= 0, s.cb.demoteAt <= third+int64(100*time.Millisecond)))
}

// vpH_C03_T_unreachable_checker: every refresh fails at once from the start, and a health checker is configured
// whose verdicts flap (explorer's choice per tick, never two unhealthy in a row, threshold default 3): unhealthy
// ticks skip the refresh, but the leader still steps down at its third consecutive failed attempt — a health
// verdict does not restart that count.
func vpH_C03_T_unreachable_checker() {
	tm := vpTimings[0]
	hc := &vpHealth{noTwoUnhealthy: true}
	s := vpLeadingInstance(tm, 0, func(cfg *ElectionConfig) { cfg.HealthChecker = hc })
	s.st.ttl = 0
	s.kv.faults = []int{vpFaultErr}
	s.kv.faultLeft = 100
	s.kv.faultOps = "update"
	s.kv.faultForce = true
	select {
	case <-s.demoted:
	case <-time.After(8*tm.H + tm.H/2):
	}
	vpCover("C03.unreachable-checker")
	failed := 0
	for _, is := range s.st.issued {
		if is.by == "a" && is.op == "update" {
			failed++
		}
	}
	vpAssert("C03.demote-after-3", s.cb.demotes >= 1 && !s.e.IsLeader())
	vpAssert("C03.demote-after-3:attempts", failed <= 3)
}

// extra widens the window in which the cut may begin (so that slow successful refreshes precede it)
func vpC03UnreachableW(tm vpTiming, extra time.Duration) {
	mcf := []int{0, 6}[vpChoose("MaxConsecutiveFailures", 2)] // the health threshold must not change the heartbeat rule
	s := vpLeadingInstance(tm, 0, func(cfg *ElectionConfig) { cfg.MaxConsecutiveFailures = mcf })
	s.kv.lat = s.to - 1
	s.kv.cutLat = s.to
	s.kv.opLeft = 7
	window := 2*tm.H + tm.H/2 + extra
	if vpC03SymErr {
		vpC03SymErr = false
		s.st.symErr = true
		window = tm.H / 2 // the fault begins before the first refresh: the error text is what varies here
	}
	go func() {
		vpDelay("cut", 0, window)
		s.st.cut = true
		vpEvent("cut")
	}()
	select {
	case <-s.demoted:
	case <-time.After(3*tm.H + extra + 4*tm.H + 4*s.to + time.Second):
	}
	vpCover("C03.unreachable")
	vpAssert("C03.demote-after-3", s.st.cut && s.cb.demotes >= 1 && !s.e.IsLeader())
	// attempts issued after the start of the last successful write
	failed := 0
	for _, is := range s.st.issued {
		if is.by == "a" && is.op == "update" && is.at > s.kv.lastOKStart {
			failed++
		}
	}
	vpAssert("C03.demote-after-3:attempts", failed <= 3)
	vpAssert("C03.demote-after-3:bound", vpImplies(s.cb.demotes >= 1, s.cb.demoteAt <= s.kv.lastOKStart+int64(3*tm.H+3*s.to)))
}
