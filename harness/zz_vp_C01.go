//go:build verif

package leader

import (
	"context"
	"time"
)

// vpH_C01_T_stop_delete: a leader is (legitimately) preempted by a higher-priority participant at an
// explorer-chosen point and is shut down with DeleteKey at another: every mutation it issues must be of an
// allowed form; in particular it may delete the record only while it is the owner.
func vpH_C01_T_stop_delete() {
	tm := vpTimings[0]
	s := vpLeadingInstance(tm, 0, nil)
	s.st.ttl = 0
	go func() {
		vpYieldLazy("env.preempt", 2*tm.H)
		if s.st.live() && s.st.writer == "a" {
			s.st.write("env:hi", "update", vpRecMk("hi", "tok-hi", 9), false, s.st.lastSeq)
			vpEvent("preempted")
		}
	}()
	leaderAtStop := false
	go func() {
		vpYieldLazy("api.stop", 2*tm.H+tm.H/2)
		leaderAtStop = s.e.IsLeader()
		_ = s.e.StopWithContext(context.Background(), StopOptions{DeleteKey: true})
		vpEvent("stopped")
	}()
	time.Sleep(3 * tm.H)
	vpQuiesce()
	vpCover("C01.stop-delete")
	vpAuditLogL(s.st, "a", false, 0, true, leaderAtStop)
	// C08: one promotion, and exactly one demotion callback by now whatever the order of preemption and stop
	vpAssert("C08.balance-at-quiescence", !s.e.IsLeader() && s.cb.promotes == 1 && s.cb.demotes == 1)
}

// vpH_C01_T_preempted: a takeover-enabled instance (priority 5) that became leader through the follower path
// (watcher, periodic check and acquisition rounds around) is preempted by a priority-9 participant at an
// explorer-chosen point; it must never write over the successor's record.
func vpH_C01_T_preempted() {
	H := time.Second
	vpSetOpt("rand-fixed", 1)
	s := vpFollowingInstance(H, func(cfg *ElectionConfig) {
		cfg.Priority = 5
		cfg.AllowPriorityTakeover = true
	})
	// the old owner (priority 0) is preempted by the instance itself, or leaves
	go func() {
		vpYieldLazy("env.preempt", 3*H)
		if s.st.live() && s.st.writer == "a" {
			s.st.write("env:hi", "update", vpRecMk("hi", "tok-hi", 9), false, s.st.lastSeq)
			vpEvent("preempted")
		}
	}()
	time.Sleep(3*H + H/2)
	vpQuiesce()
	vpCover("C01.preempted")
	vpAuditLog(s.st, "a", true, 5, false)
	_ = s.e.Stop()
}

// vpH_C01_T_group_key: groups whose names contain characters outside [A-Za-z0-9_-]: every store operation of
// the election must address exactly its own group's key (elections of different groups never share a record).
func vpH_C01_T_group_key() {
	names := []string{"payments eu", "payments_eu", "jobs:nightly", "a/b.c=d", "grp-1"}
	g := names[vpChoose("group", len(names))]
	st := vpNewStore(g, 0)
	kv := vpHandle(st, "a")
	cfg := vpBaseConfig("a", time.Second, 3*time.Second)
	cfg.Group = g
	cfg.ValidationInterval = time.Hour
	e := vpMustNew(&vpProvider{kv}, cfg)
	_ = e.Start(vpRootCtx())
	time.Sleep(1500 * time.Millisecond)
	vpQuiesce()
	vpCover("C01.group-key")
	vpAssert("C01.mut.key-is-group", e.key == g && e.IsLeader())
	_ = e.StopWithContext(context.Background(), StopOptions{DeleteKey: true})
	vpAuditLog(st, "a", false, 0, true)
}

// vpH_C01_T_late_create_answer: a follower's Create wins the vacancy but its answer takes 300 ms; in that time a
// takeover-enabled instance of priority 30 legitimately replaces the new record, and the follower's watcher
// tells it so. When the answer finally arrives the instance believes it leads; its refreshes must go against
// the revision of its own write (and so fail): it never overwrites the preemptor's record.
func vpH_C01_T_late_create_answer() {
	H := time.Second
	vpSetOpt("rand-fixed", 1)
	s := vpFollowingInstance(H, nil)
	time.Sleep(700 * time.Millisecond)
	vpQuiesce()
	s.kv.createRespLat = 300 * time.Millisecond
	s.kv.opLeft = 40
	s.kv.afterApply = func(op string) {
		if op == "create" && s.st.live() && s.st.writer == "a" {
			s.st.write("env:z", "update", vpRecMk("z", "tok-z", 30), false, s.st.lastSeq)
			vpEvent("z-preempted")
		}
	}
	s.st.write("env:other", "delete", nil, true, 0)
	time.Sleep(2*H + H/2)
	vpQuiesce()
	vpCover("C01.late-create-answer")
	vpAssert("C01.mut.replace-strictly-higher", s.st.live() && s.st.writer == "env:z")
	vpAuditLog(s.st, "a", false, 0, false)
	_ = s.e.Stop()
}

// vpH_C01_T_stop_during_create: the instance is stopped while its winning Create is still unanswered (the answer
// takes 300 ms); the orphaned record is then legitimately taken over by a priority-30 instance. When the answer
// reaches the stopped instance it claims nothing — and it mutates nothing: in particular it does not delete a
// record that is no longer its own.
func vpH_C01_T_stop_during_create() {
	H := time.Second
	vpSetOpt("rand-fixed", 1)
	s := vpFollowingInstance(H, nil)
	time.Sleep(700 * time.Millisecond)
	vpQuiesce()
	s.kv.createRespLat = 300 * time.Millisecond
	s.kv.opLeft = 40
	applied := false
	s.kv.afterApply = func(op string) {
		if op == "create" && s.st.live() && s.st.writer == "a" {
			applied = true
		}
	}
	s.st.write("env:other", "delete", nil, true, 0)
	time.Sleep(100 * time.Millisecond) // jitter 55 ms: the Create has been applied, its answer is on the way
	vpQuiesce()
	if !applied {
		vpEndPath("create-not-applied")
	}
	variant := vpChoose("variant", 2)
	_ = vpDoStop(s.e, variant)
	s.st.noEvents = true
	s.st.write("env:z", "update", vpRecMk("z", "tok-z", 30), false, s.st.lastSeq)
	time.Sleep(H)
	vpQuiesce()
	vpCover("C01.stop-during-create")
	vpAssert("C01.mut.delete-own", s.st.live() && s.st.writer == "env:z")
	vpAssert("C09.no-claim-after-stop", !s.e.IsLeader())
	vpAuditLog(s.st, "a", false, 0, false)
}
