//go:build verif

package leader

import (
	"context"
	"time"
)

// stop monitor: after the stop call has returned the instance must never claim leadership, never run
// OnPromote and never issue a store operation again.
type vpStopMon struct {
	stopped   bool
	returned  bool
	calledAt  int64
	retAt     int64
	err       error
	opsAtRet  int
	promAtRet int
	claimAfter bool
}

func (m *vpStopMon) watch(mt *vpMetrics, prev func(float64)) {
	mt.onFlag = func(v float64) {
		if m.returned && v == 1 {
			m.claimAfter = true
			vpEvent("claim-after-stop", vpSite())
			vpAssert("C09.no-claim-after-stop", false)
		}
		if prev != nil {
			prev(v)
		}
	}
}

const (
	vpStopPlain = iota
	vpStopCtx
	vpStopCtxDelete
	vpStopCtxDeleteWait
	vpStopVariants
)

func vpDoStop(e *kvElection, variant int) error {
	switch variant {
	case vpStopPlain:
		return e.Stop()
	case vpStopCtx:
		return e.StopWithContext(context.Background(), StopOptions{})
	case vpStopCtxDelete:
		return e.StopWithContext(context.Background(), StopOptions{DeleteKey: true})
	}
	return e.StopWithContext(context.Background(), StopOptions{DeleteKey: true, WaitForDemote: true})
}

func (m *vpStopMon) stopAt(e *kvElection, st *vpStore, cb *vpCallbacks, variant int, label string, window time.Duration) {
	go func() {
		vpYieldLazy("api.stop", window) // schedulable at every store-operation leg and every quiescent instant in the window
		m.calledAt = vpNow()
		vpEvent("stop-call", variant)
		m.stopped = true
		m.err = vpDoStop(e, variant)
		m.retAt = vpNow()
		m.opsAtRet = len(st.issued)
		m.promAtRet = cb.promotes
		m.returned = true
		vpEvent("stop-returned")
	}()
}

func (m *vpStopMon) finalChecks(e *kvElection, st *vpStore, kv *vpKV, cb *vpCallbacks, variant int, wasOwnerAtCall bool) {
	vpAssert("C09.stop-returned", m.returned)
	if !m.returned {
		return
	}
	vpAssert("C09.no-claim-after-stop", !e.IsLeader() && !m.claimAfter)
	vpAssert("C09.no-promote-after-stop", cb.promotes == m.promAtRet)
	vpAssert("C09.no-op-after-stop", len(st.issued) == m.opsAtRet)
	vpAssert("C09.threads-end", vpThreadsAlive() == 0)
	for _, w := range st.watchers {
		vpAssert("C09.watch-released", w.stopped || w.closed) // no store subscription survives the stop
	}
	if variant == vpStopPlain {
		vpAssert("C09.returns-in-bound", m.retAt-m.calledAt <= int64(5*time.Second))
	} else {
		vpAssert("C09.returns-in-bound", m.retAt-m.calledAt <= int64(5*time.Second)) // default time-out of StopWithContext
	}
	vpAssert("C18.stopped-after-stop", e.Status().State == StateStopped && !e.Status().IsLeader)
}

// vpH_C09_T_stop_leader: a heartbeating leader is stopped (every variant) at a symbolic instant and at every
// store-operation leg of that instant (before issue, between issue and application, between application
// and response, after the response).
func vpH_C09_T_stop_leader() { vpC09StopLeader(vpTimings[0], 2) }

// thorough: the H=4s configuration (time-out H/2) over 3.5 heartbeats
func vpH_C09_T_stop_leader_slow() { vpC09StopLeader(vpTimings[1], 3) }

func vpC09StopLeader(tm vpTiming, beats int) {
	variant := vpChoose("variant", vpStopVariants)
	s := vpLeadingInstance(tm, 0, func(cfg *ElectionConfig) { cfg.Metrics = &vpMetrics{} })
	s.kv.ackYield = true
	mon := &vpStopMon{}
	mon.watch(s.e.cfg.Metrics.(*vpMetrics), nil)
	mon.stopAt(s.e, s.st, s.cb, variant, "stop-at", time.Duration(beats)*tm.H+tm.H/2)
	time.Sleep(time.Duration(beats)*tm.H + tm.H/2 + 6*time.Second)
	vpQuiesce()
	vpCover("C09.stop-leader")
	mon.finalChecks(s.e, s.st, s.kv, s.cb, variant, true)
	vpAssert("C09.demote-callback", s.cb.demotes == 1)
	if variant >= vpStopCtxDelete && mon.err == nil {
		vpAssert("C09.deleted-on-return", !s.st.live() || s.st.writer != "a")
	}
	vpAuditLog(s.st, "a", false, 0, variant >= vpStopCtxDelete)
}

// vpH_C09_T_stop_acquiring: a follower whose leader just vanished is stopped while its acquisition attempt
// (jitter wait, or Create in flight) is under way; also Stop right after Start with the first Create in flight.
func vpH_C09_T_stop_acquiring() {
	variant := vpChoose("variant", 3)
	vpSetOpt("rand-fixed", 1)
	mt := &vpMetrics{}
	s := vpFollowingInstance(time.Second, nil)
	s.kv.ackYield = true
	mon := &vpStopMon{}
	mon.watch(s.m, s.m.onFlag)
	_ = mt
	go func() {
		vpDelay("vacate", 0, 200*time.Millisecond)
		s.st.write("env:other", "delete", nil, true, 0)
	}()
	mon.stopAt(s.e, s.st, s.cb, variant, "stop-at", 500*time.Millisecond)
	time.Sleep(500*time.Millisecond + 6*time.Second)
	vpQuiesce()
	vpCover("C09.stop-acquiring")
	mon.finalChecks(s.e, s.st, s.kv, s.cb, variant, false)
	vpAssert("C09.callbacks-balanced", s.cb.promotes == s.cb.demotes)
}

// vpH_C09_T_stop_slow_create: Stop while the very first Create is in flight with a latency that may exceed
// Stop's own 5s wait: the answer arrives after Stop has returned.
// vpH_C09_T_stop_window: the answer to an in-flight Create arrives while the stop call is between its own
// steps (the Logger's "election_stopped" line and the Metrics calls are scheduling points inside the stop call).
func vpH_C09_T_stop_window() {
	variant := vpChoose("variant", 2)
	st := vpNewStore("g", 0)
	kv := vpHandle(st, "a")
	kv.ackYield = true
	mt := &vpMetrics{yieldOn: true}
	cfg := vpBaseConfig("a", time.Second, 3*time.Second)
	cfg.ValidationInterval = time.Hour
	cfg.Metrics = mt
	cfg.Logger = &vpYieldLogger{at: map[string]bool{"election_stopped": true}}
	e := vpMustNew(&vpProvider{kv}, cfg)
	cb := &vpCallbacks{}
	cb.install(e)
	mon := &vpStopMon{}
	mon.watch(mt, nil)
	_ = e.Start(vpRootCtx())
	mon.stopAt(e, st, cb, variant, "stop-at", 200*time.Millisecond)
	time.Sleep(7 * time.Second)
	vpQuiesce()
	vpCover("C09.stop-window")
	vpAssert("C09.stop-returned", mon.returned)
	vpAssert("C09.no-claim-after-stop", !e.IsLeader() && !mon.claimAfter)
	vpAssert("C02.claim-backed", !e.IsLeader())
	vpAssert("C09.no-promote-after-stop", cb.promotes == mon.promAtRet)
	vpAssert("C18.stopped-after-stop", e.Status().State == StateStopped && !e.Status().IsLeader)
}

func vpH_C09_T_stop_slow_create() {
	variant := vpChoose("variant", 2)
	st := vpNewStore("g", 0)
	kv := vpHandle(st, "a")
	kv.lat = 7 * time.Second
	mt := &vpMetrics{}
	cfg := vpBaseConfig("a", time.Second, 3*time.Second)
	cfg.ValidationInterval = time.Hour
	cfg.Metrics = mt
	e := vpMustNew(&vpProvider{kv}, cfg)
	cb := &vpCallbacks{}
	cb.install(e)
	mon := &vpStopMon{}
	mon.watch(mt, nil)
	_ = e.Start(vpRootCtx())
	mon.stopAt(e, st, cb, variant, "stop-at", time.Second)
	time.Sleep(15 * time.Second)
	vpQuiesce()
	vpCover("C09.stop-slow-create")
	vpAssert("C09.stop-returned", mon.returned)
	vpAssert("C09.no-claim-after-stop", !e.IsLeader() && !mon.claimAfter)
	vpAssert("C09.no-promote-after-stop", cb.promotes == mon.promAtRet)
	vpAssert("C09.returns-in-bound", mon.retAt-mon.calledAt <= int64(5*time.Second))
	vpAssert("C18.stopped-after-stop", e.Status().State == StateStopped && !e.Status().IsLeader)
}

// vpH_C09_T_stop_twice: repeated stops and stop-then-start.
// vpH_C09_T_stop_after_cancel: the context given to Start is cancelled by the caller; a later Stop /
// StopWithContext must still leave the election STOPPED, not leading, with the demotion callback delivered.
func vpH_C09_T_stop_after_cancel() {
	tm := vpTimings[0]
	startCtx, cancelStart := context.WithCancel(vpRootCtx())
	vpStartCtx = startCtx
	s := vpLeadingInstance(tm, 0, nil)
	vpStartCtx = nil
	cancelStart()
	time.Sleep(tm.H / 2)
	variant := vpChoose("variant", 2)
	_ = vpDoStop(s.e, variant)
	time.Sleep(6 * time.Second)
	vpQuiesce()
	vpCover("C09.stop-after-cancel")
	vpAssert("C09.no-claim-after-stop", !s.e.IsLeader())
	vpAssert("C18.stopped-after-stop", s.e.Status().State == StateStopped && !s.e.Status().IsLeader)
	vpAssert("C08.balance-at-quiescence", s.cb.promotes == 1 && s.cb.demotes == 1)
	vpAssert("C09.threads-end", vpThreadsAlive() == 0)
}

func vpH_C09_T_stop_twice() {
	tm := vpTimings[0]
	s := vpLeadingInstance(tm, 0, nil)
	v1 := vpChoose("first", 2)
	v2 := vpChoose("second", 3)
	err1 := vpDoStop(s.e, v1*2) // Stop or StopWithContext{DeleteKey}
	vpAssert("C09.first-stop-ok", err1 == nil && !s.e.IsLeader())
	switch v2 {
	case 0:
		_ = s.e.Stop()
	case 1:
		_ = s.e.StopWithContext(context.Background(), StopOptions{DeleteKey: true})
	case 2:
		s.st.write("env:cleanup", "delete", nil, true, 0)
		_ = s.e.Start(vpRootCtx())
		vpQuiesce()
		vpAssert("C09.restart-leads", s.e.IsLeader())
		_ = s.e.Stop()
	}
	time.Sleep(6 * time.Second)
	vpQuiesce()
	vpCover("C09.stop-twice")
	vpAssert("C09.no-claim-after-stop", !s.e.IsLeader())
	vpAssert("C09.threads-end", vpThreadsAlive() == 0)
	vpAssert("C09.callbacks-balanced", s.cb.promotes == s.cb.demotes)
}
