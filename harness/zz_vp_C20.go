//go:build verif

package leader

import (
	"context"
	"time"
)

// C20: a leader with connection monitoring, its background goroutines, connection notifications and
// concurrent API callers. The executor tracks happens-before (go, channels, mutexes, WaitGroup, atomics,
// context cancellation, timers) and reports every pair of conflicting plain accesses to fields of the
// election, the disconnect handler and the connection monitor that is unordered on an explored path.
// Happens-before reasoning does not depend on where exactly the two accesses were scheduled, so each
// harness places one caller lazily and runs the others at fixed points.

// readers and callback registration against the background activity and a demotion
func vpH_C20_T_readers() {
	vpSetOpt("race", 1)
	H := time.Second
	s := vpConnInstance(H, 2*H, map[string]bool{}) // a Logger is configured (it receives what every log site builds)
	s.kv.opLeft = 40
	go func() {
		vpYieldLazy("api.read", 2*H)
		_ = s.e.Status()
		_ = s.e.IsLeader()
		_ = s.e.Token()
		_ = s.e.LeaderID()
		_, _ = s.e.ValidateToken(context.Background())
		_ = s.e.ValidateTokenOrDemote(context.Background())
	}()
	go func() {
		time.Sleep(H / 2)
		s.e.OnDemote(func() {})
		s.e.OnPromote(func(ctx context.Context, token string) {})
	}()
	time.Sleep(H + H/4)
	s.st.write("env:other", "update", vpRecMk("other", "tok-o", 0), false, s.st.lastSeq) // heartbeat conflict -> demotion -> follower path
	time.Sleep(2 * H)
	vpQuiesce()
	vpCover("C20.readers")
	_ = s.e.Stop()
}

// stop / restart against connection notifications and the grace timer
func vpH_C20_T_stop_notify() {
	vpSetOpt("race", 1)
	H := time.Second
	s := vpConnInstance(H, 2*H, nil)
	s.kv.opLeft = 40
	variant := vpChoose("variant", 2)
	go func() {
		time.Sleep(H / 4)
		s.notify(0)
		time.Sleep(H / 2)
		s.notify(1)
		time.Sleep(H / 2)
		s.notify(0)
	}()
	go func() {
		vpYieldLazy("api.stop", 2*H+H/2)
		_ = vpDoStop(s.e, variant)
		if vpChoose("restart", 2) == 1 {
			_ = s.e.Start(vpRootCtx())
		}
	}()
	time.Sleep(5 * H)
	vpQuiesce()
	vpCover("C20.stop-notify")
	_ = s.e.Stop()
}

// stop against callback registration, readers and an acquisition round in flight (follower)
func vpH_C20_T_stop_follower() {
	vpSetOpt("race", 1)
	vpSetOpt("rand-fixed", 1)
	H := time.Second
	s := vpFollowingInstance(H, nil)
	variant := vpChoose("variant", 2)
	go func() {
		time.Sleep(100 * time.Millisecond)
		s.st.write("env:other", "delete", nil, true, 0) // delete marker ...
		s.st.write("env:other", "delete", nil, true, 0) // ... and purge marker: two acquisition rounds in flight
	}()
	go func() {
		time.Sleep(120 * time.Millisecond)
		s.e.OnDemote(func() {})
		_ = s.e.Status()
	}()
	go func() {
		vpYieldLazy("api.stop", H)
		_ = vpDoStop(s.e, variant)
	}()
	time.Sleep(7 * H)
	vpQuiesce()
	vpCover("C20.stop-follower")
}

// a heartbeat Update that is answered after the loop's time-out (the abandoned goroutine finishes later)
func vpH_C20_T_slow_update() {
	vpSetOpt("race", 1)
	tm := vpTimings[0]
	s := vpLeadingInstance(tm, 0, nil)
	s.st.ttl = 0
	s.kv.lat = 1500 * time.Millisecond // time-out is 1s
	s.kv.latMin = s.kv.lat
	s.kv.opLeft = 8
	time.Sleep(5 * tm.H)
	vpQuiesce()
	vpCover("C20.slow-update")
	_ = s.e.Stop()
}

// restart after a stop that gave up waiting: the OnPromote callback of the first run needs 3 s to wind down
// after its context is cancelled, StopWithContext waits 1 s, and the application starts the election again
// while that goroutine (and the abandoned wait for it) still exist
func vpH_C20_T_restart_straggler() {
	vpSetOpt("race", 1)
	tm := vpTimings[0]
	vpCbTemplate = &vpCallbacks{blockOnCtx: true, drain: 3 * time.Second}
	s := vpLeadingInstance(tm, 0, nil)
	s.kv.opLeft = 30
	time.Sleep(tm.H / 2)
	err := s.e.StopWithContext(vpRootCtx(), StopOptions{Timeout: time.Second})
	vpAssert("harness.stop-gave-up", err != nil)
	_ = s.e.Start(vpRootCtx())
	time.Sleep(5 * time.Second) // the straggler finishes during the second run
	vpQuiesce()
	vpCover("C20.restart-straggler")
	_ = s.e.Stop()
	vpQuiesce()
}

// a graceful shutdown with DeleteKey against a store that answers the Delete after the shutdown's time-out
func vpH_C20_T_stop_slow_delete() {
	vpSetOpt("race", 1)
	tm := vpTimings[0]
	s := vpLeadingInstance(tm, 0, nil)
	s.kv.opLeft = 20
	s.kv.latOps = "delete"
	s.kv.lat = 600 * time.Millisecond
	s.kv.latMin = s.kv.lat
	time.Sleep(tm.H / 4)
	_ = s.e.StopWithContext(vpRootCtx(), StopOptions{DeleteKey: true, Timeout: 300 * time.Millisecond})
	time.Sleep(2 * time.Second) // the late answer arrives
	vpQuiesce()
	vpCover("C20.stop-slow-delete")
}
