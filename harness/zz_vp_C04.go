//go:build verif

package leader

import (
	"context"
	"time"
)

// state builder for the validation harnesses: a real leader, then the environment changes the record
var vpC04CancelStart func()

func vpC04State() (*vpLeaderScn, string, bool, bool) {
	startCtx, cancelStart := context.WithCancel(vpRootCtx())
	vpC04CancelStart = cancelStart
	vpStartCtx = startCtx
	s := vpLeadingInstance(vpTimings[0], 0, nil)
	vpStartCtx = nil
	s.st.ttl = 0
	tok := s.e.Token()
	vpNoteToken(tok)
	own := true // does the live record carry this instance's id and current token (as strings)?
	switch vpChoose("record", 5) {
	case 0: // untouched
	case 1: // arbitrary bytes written by an outside party
		r := vpRec("r")
		s.st.write("env:outsider", "update", r, false, s.st.lastSeq)
		okT, t := vpRecMapTok(r)
		okI, id := vpRecMapID(r)
		own = vpAnd(vpNot(vpRecEmpty(r)), vpAnd(vpAnd(okT, t == tok), vpAnd(okI, id == "a")))
	case 2: // deleted
		s.st.write("env:outsider", "delete", nil, true, 0)
		own = false
	case 3: // another instance's well-formed payload
		s.st.write("env:other", "update", vpRecMk("other", "tok-other", 0), false, s.st.lastSeq)
		own = false
	case 4: // own id, different token (a later incarnation)
		s.st.write("env:a2", "update", vpRecMk("a", "tok-later", 0), false, s.st.lastSeq)
		own = false
	}
	leader := true
	if vpChoose("start-ctx", 2) == 1 {
		vpC04CancelStart() // the context given to Start ends (no Stop call): validation must still demote on failure
	}
	if vpChoose("leader", 2) == 1 {
		s.e.becomeFollower() // demoted by some other path; the local token is still set
		leader = false
		for len(s.demoted) > 0 {
			<-s.demoted
		}
	}
	return s, tok, own, leader
}

func vpC04Ctx(s *vpLeaderScn) (context.Context, context.CancelFunc, bool, bool) {
	switch vpChoose("ctx", 3) {
	case 1:
		ctx, cancel := context.WithCancel(vpRootCtx())
		cancel()
		return ctx, cancel, true, false
	case 2:
		ctx, cancel := context.WithTimeout(vpRootCtx(), 100*time.Millisecond)
		// only with a deadline may the read hang or fail slowly
		s.kv.faults = []int{vpFaultErr, vpFaultHang}
		s.kv.faultLeft = 1
		s.kv.faultOps = "get"
		return ctx, cancel, false, true
	}
	ctx, cancel := context.WithCancel(vpRootCtx())
	s.kv.faults = []int{vpFaultErr}
	s.kv.faultLeft = 1
	s.kv.faultOps = "get"
	return ctx, cancel, false, false
}

// vpH_C04_T_validate: ValidateToken is sound (true only if the record read during the call carried own id and
// current token and the caller led) and fail-safe (false in every other situation).
func vpH_C04_T_validate() {
	s, _, own, leader := vpC04State()
	ctx, cancel, cancelled, _ := vpC04Ctx(s)
	defer cancel()
	faultsBefore := s.kv.faultLeft
	ok, err := s.e.ValidateToken(ctx)
	faulted := s.kv.faultLeft != faultsBefore
	vpCover("C04.validate")
	if ok {
		vpCover("C04.valid-true")
		vpAssert("C04.true-only-if-own-live", vpAnd(own, leader && !cancelled && !faulted))
		vpAssert("C04.true-has-no-error", err == nil)
	} else {
		// completeness on the good case guards against a check that always says false
		vpAssert("C04.false-otherwise", vpNot(vpAnd(own, leader && !cancelled && !faulted)))
	}
}

// vpH_C04_T_ordemote: ValidateTokenOrDemote returns the same verdict; on false the instance no longer leads
// and OnDemote ran iff it was leader.
func vpH_C04_T_ordemote() {
	s, _, own, leader := vpC04State()
	ctx, cancel, cancelled, _ := vpC04Ctx(s)
	defer cancel()
	faultsBefore := s.kv.faultLeft
	demotesBefore := s.cb.demotes
	ok := s.e.ValidateTokenOrDemote(ctx)
	faulted := s.kv.faultLeft != faultsBefore
	vpCover("C04.ordemote")
	if ok {
		vpAssert("C04.ordemote-same-verdict", vpAnd(own, leader && !cancelled && !faulted))
		vpAssert("C04.ordemote-still-leader", s.e.IsLeader())
		return
	}
	vpAssert("C04.ordemote-same-verdict", vpNot(vpAnd(own, leader && !cancelled && !faulted)))
	vpAssert("C04.ordemote-not-leader-after", !s.e.IsLeader())
	if leader {
		vpAssert("C04.ordemote-callback", s.cb.demotes == demotesBefore+1)
	} else {
		vpAssert("C04.ordemote-callback", s.cb.demotes == demotesBefore)
	}
}

// vpH_C04_T_loop: the periodic background validation demotes a leader whose record no longer carries its
// token within two validation intervals plus the validation time-out.
func vpH_C04_T_loop() {
	tm := vpTimings[0]
	s := vpLeadingInstance(tm, 0, func(cfg *ElectionConfig) { cfg.ValidationInterval = tm.H })
	s.st.ttl = 0
	// a later incarnation with the same id but another token takes the record; heartbeats are parked so that
	// only the validation loop can notice: refreshes of the old leader are answered with an (ignored) hang
	s.kv.faults = []int{vpFaultHang}
	s.kv.faultLeft = 100
	s.kv.faultOps = "update"
	s.st.write("env:a2", "update", vpRecMk("a", "tok-later", 0), false, s.st.lastSeq)
	t0 := vpNow()
	select {
	case <-s.demoted:
	case <-time.After(6 * tm.H):
	}
	vpCover("C04.loop")
	vpAssert("C04.loop-demotes", s.cb.demotes >= 1 && !s.e.IsLeader())
	vpAssert("C04.loop-demotes:bound", vpImplies(s.cb.demotes >= 1, s.cb.demoteAt-t0 <= int64(3*tm.H+3*time.Second)))
}

// vpH_C04_T_validate_racing (thorough): the record is replaced by another owner at an explorer-chosen leg of
// the validation read itself (before it is issued, between issue and application, after the response).
func vpH_C04_T_validate_racing() {
	s := vpLeadingInstance(vpTimings[0], 0, nil)
	s.st.ttl = 0
	s.kv.ackYield = true
	replacedAt := int64(-1)
	readAt := int64(-1)
	go func() {
		vpYield("env.replace")
		s.st.write("env:other", "update", vpRecMk("other", "tok-other", 0), false, s.st.lastSeq)
		replacedAt = int64(len(s.st.log))
	}()
	s.kv.afterApply = func(op string) {
		if op == "get" && readAt < 0 {
			readAt = int64(len(s.st.log))
		}
	}
	ok, _ := s.e.ValidateToken(vpRootCtx())
	vpQuiesce()
	vpCover("C04.validate-racing")
	if ok {
		// a positive verdict means the read saw the instance's own record: the replacement came after the read
		vpAssert("C04.true-only-if-own-live", replacedAt < 0 || readAt < replacedAt)
	} else {
		vpAssert("C04.false-otherwise", replacedAt >= 0 && replacedAt <= readAt)
	}
}
