//go:build verif

package leader

import "time"

// vpH_C13_T_follower: an instance (plain, or takeover-enabled candidate) starts next to a live record holding
// arbitrary bytes written by an outside party: no panic, no unbounded recursion or loop, no leadership claim
// over the foreign record except by legitimate preemption.
func vpH_C13_T_follower() { vpC13Follower(false) }

// thorough: a well-formed record of symbolic priority is rewritten with arbitrary bytes at any store-visible point
func vpH_C13_T_follower_arb() { vpC13Follower(true) }

func vpC13Follower(arbRewrite bool) {
	takeover := arbRewrite || vpChoose("takeover", 2) == 1 // thorough variant: the takeover-enabled candidate only
	vpSetOpt("rand-fixed", 1)
	st := vpNewStore("g", 0)
	var r []byte
	if arbRewrite {
		// thorough variant: the first record is a well-formed payload of symbolic priority, the rewrite is arbitrary
		p0 := vpInt("prio0")
		vpAssume(vpAnd(p0 >= 0, p0 <= 1000))
		r = vpRecMk("y", "tok-y", p0)
	} else {
		r = vpRec("r0")
	}
	st.write("env:outsider", "create", r, false, 0)
	kv := vpHandle(st, "a")
	cfg := vpBaseConfig("a", time.Second, 3*time.Second)
	cfg.ValidationInterval = time.Hour
	if takeover {
		cfg.Priority = 5
		cfg.AllowPriorityTakeover = true
	}
	e := vpMustNew(&vpProvider{kv}, cfg)
	if vpChoose("rewrite", 2) == 1 {
		// the outside party rewrites the record once more, at any store-visible point (e.g. between the
		// candidate's read and its conditional write)
		go func() {
			vpYield("env.rewrite") // schedulable at every store-operation leg of the start attempt (t=0)
			if st.live() && st.writer != "a" {
				// another party's well-formed payload with a symbolic priority
				if arbRewrite {
					st.write("env:outsider2", "update", vpRec("r1"), false, st.lastSeq)
				} else {
					p1 := vpInt("prio1")
					vpAssume(vpAnd(p1 >= 0, p1 <= 1000))
					st.write("env:outsider2", "update", vpRecMk("x", "tok-x", p1), false, st.lastSeq)
				}
			}
		}()
	}
	_ = e.Start(vpRootCtx())
	time.Sleep(180 * time.Millisecond) // start attempt, watcher start, first two attempts of the acquisition rounds (the periodic check on arbitrary bytes is vpH_C13_T_rewrite's)
	vpQuiesce()
	vpCover("C13.follower")
	if e.IsLeader() {
		// only by preemption (audited below against the record actually replaced) and backed by its own record
		vpAssert("C13.no-claim-over-foreign", takeover && st.live() && st.writer == "a")
	}
	_ = r
	vpAuditLog(st, "a", takeover, 5, false)
	vpAssert("C13.responsive", e.Status().State != "")
	_ = e.Stop()
}

// vpH_C13_T_rewrite: an outside party rewrites the record with arbitrary bytes (or a follower-side event
// with arbitrary bytes arrives) while the instance follows; then the record is removed: the instance must
// still be able to take over (it did not crash, hang or stop responding).
func vpH_C13_T_rewrite() {
	vpSetOpt("rand-fixed", 1)
	s := vpFollowingInstance(time.Second, nil)
	time.Sleep(600 * time.Millisecond) // first round over
	r := vpRec("r1")
	s.st.write("env:outsider", "update", r, false, s.st.lastSeq)
	time.Sleep(600 * time.Millisecond)
	vpQuiesce()
	vpAssert("C13.no-claim-over-foreign", !s.e.IsLeader())
	s.st.write("env:outsider", "delete", nil, true, 0)
	time.Sleep(700 * time.Millisecond)
	vpQuiesce()
	vpCover("C13.rewrite")
	vpAssert("C13.still-responsive", s.e.IsLeader())
	vpAuditLog(s.st, "a", false, 0, false) // in particular: the foreign bytes were never deleted or overwritten by this instance
	_ = s.e.Stop()
}

// vpH_C13_T_leader_tampered: a leader whose record is overwritten with arbitrary bytes is demoted by its
// next heartbeat attempt (C03 bound) and does not crash.
func vpH_C13_T_leader_tampered() {
	tm := vpTimings[0]
	s := vpLeadingInstance(tm, 0, nil)
	s.st.ttl = 0
	tc := int64(-1)
	go func() {
		vpDelay("tamper", 0, tm.H+tm.H/2)
		tc = vpNow()
		s.st.write("env:outsider", "update", vpRec("r"), false, s.st.lastSeq)
	}()
	select {
	case <-s.demoted:
	case <-time.After(2*tm.H + tm.H + 2*s.to + time.Second):
	}
	vpCover("C13.tampered")
	vpAssert("C13.tamper-demotes", tc >= 0 && s.cb.demotes >= 1 && !s.e.IsLeader())
	vpAssert("C13.tamper-demotes:bound", vpImplies(s.cb.demotes >= 1, s.cb.demoteAt <= tc+int64(tm.H+2*s.to)))
}

// vpH_C13_T_validate: a leader's record is overwritten with arbitrary bytes and the token is validated (API call
// and, through it, the demotion handler, which formats and classifies an error built from the record's
// contents): no panic, whatever the record holds.
func vpH_C13_T_validate() {
	s := vpLeadingInstance(vpTimings[0], 0, nil)
	s.st.ttl = 0
	s.st.write("env:outsider", "update", vpRec("r"), false, s.st.lastSeq)
	ok := s.e.ValidateTokenOrDemote(vpRootCtx())
	vpCover("C13.validate")
	if !ok {
		vpAssert("C13.tamper-demotes", !s.e.IsLeader())
	}
}

// vpH_C13_T_leader_tampered_watch: the leader was a follower before (its watch loop is still running) and its
// record is overwritten with arbitrary bytes: the watch notification about the foreign bytes reaches it before
// its next heartbeat. It must not crash, hang or stop responding (Status and Stop return), and it is demoted
// with the callback by the time the next heartbeat has completed.
func vpH_C13_T_leader_tampered_watch() {
	H := time.Second
	vpSetOpt("rand-fixed", 1)
	s := vpFollowingInstance(H, nil)
	time.Sleep(450 * time.Millisecond)
	s.st.write("env:other", "delete", nil, true, 0)
	time.Sleep(200 * time.Millisecond)
	vpQuiesce()
	if !s.e.IsLeader() {
		vpEndPath("not-elected")
	}
	s.st.write("env:outsider", "update", vpRec("r"), false, s.st.lastSeq)
	time.Sleep(H + H/2)
	vpQuiesce()
	vpCover("C13.tampered-watch")
	dl := vpDeadlocked()
	vpAssert("C13.responsive", dl == "")
	if dl != "" {
		return
	}
	vpAssert("C13.tamper-demotes", s.cb.demotes == 1 && !s.e.IsLeader())
	vpAssert("C13.responsive", s.e.Status().State != "")
	_ = s.e.Stop()
	vpQuiesce()
	vpAssert("C13.responsive", vpThreadsAlive() == 0)
}

// vpH_C13_T_empty_record_closed_watch: the follower's watch subscription ended right after the initial value
// (server-side close) and an outside party overwrites the record with an empty value that stays there: every
// periodic check starts an acquisition round that cannot win. The follower's activity stays bounded: no
// further watch subscriptions pile up, the rate of store operations does not grow.
func vpH_C13_T_empty_record_closed_watch() {
	H := time.Second
	vpSetOpt("rand-fixed", 1)
	s := &vpFollowerScn{H: H}
	s.st = vpNewStore("g", 0)
	s.st.watchMode = 1
	s.st.maxWatches = 4
	s.st.write("env:other", "create", vpRecMk("other", "tok-other", 0), false, 0)
	s.kv = vpHandle(s.st, "a")
	s.kv.opLeft = 400
	cfg := vpBaseConfig("a", H, 3*H)
	cfg.ValidationInterval = time.Hour
	s.e = vpMustNew(&vpProvider{s.kv}, cfg)
	s.cb = &vpCallbacks{}
	s.cb.install(s.e)
	_ = s.e.Start(vpRootCtx())
	time.Sleep(700 * time.Millisecond)
	vpQuiesce()
	s.st.write("env:outsider", "update", make([]byte, 0), false, s.st.lastSeq)
	time.Sleep(2 * time.Second)
	vpQuiesce()
	ops2 := len(s.st.issued)
	time.Sleep(2 * time.Second)
	vpQuiesce()
	ops4 := len(s.st.issued)
	vpCover("C13.empty-record-closed-watch")
	watches := 0
	for _, is := range s.st.issued {
		if is.op == "watch" {
			watches++
		}
	}
	vpAssert("C13.no-unbounded", watches <= 2)
	vpAssert("C13.no-unbounded:rate", ops4-ops2 <= ops2+10) // the second two seconds cost no more than the first two
	vpAssert("C13.no-claim-over-foreign", !s.e.IsLeader())
	_ = s.e.Stop()
}
