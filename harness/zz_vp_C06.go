//go:build verif

package leader

import (
	"time"

	"github.com/nats-io/nats.go"
)

// vpH_C06_T_vacancy: a follower next to a live record; NO watch notification of the vacancy is delivered;
// the owner shuts down (record deleted) or crashes (record expires) at a symbolic instant; the follower must
// lead within 500ms (periodic check) + 100ms (jitter) of the vacancy (store latency zero).
func vpH_C06_T_vacancy() {
	H := time.Second
	kind := vpChoose("vacancy", 2)
	s := vpFollowingInstance(H, nil)
	s.st.noEvents = true
	lostCreate := vpChoose("lost-create", 2) == 1
	arm := func() {
		if lostCreate {
			// the first Create after the vacancy is swallowed by a store hiccup (answered with an error only after
			// the client's 5s request time-out); the store is otherwise healthy
			s.kv.faults = []int{vpFaultHang}
			s.kv.faultLeft = 1
			s.kv.faultOps = "create"
			s.kv.faultForce = true
			s.kv.hangIsTimeout = true
		}
	}
	tv := int64(-1)
	if kind == 0 {
		go func() {
			vpDelay("vacate", 0, 900*time.Millisecond)
			s.st.write("env:other", "delete", nil, true, 0)
			tv = vpNow()
			arm()
		}()
	} else {
		// crash: the record simply expires TTL after its last write (t=0)
		s.st.ttl = 1200 * time.Millisecond
		tv = int64(1200 * time.Millisecond)
		go func() {
			time.Sleep(1200 * time.Millisecond)
			arm()
		}()
	}
	time.Sleep(900*time.Millisecond + 1200*time.Millisecond)
	vpQuiesce()
	vpCover("C06.vacancy")
	vpAssert("C06.filled-in-bound", s.cb.promotes >= 1 && s.e.IsLeader())
	if lostCreate {
		// a swallowed request costs at most one more periodic check
		vpAssert("C06.filled-in-bound:time", vpImplies(s.cb.promotes >= 1, s.cb.promoteAt <= tv+int64(1100*time.Millisecond)))
	} else {
		vpAssert("C06.filled-in-bound:time", vpImplies(s.cb.promotes >= 1, s.cb.promoteAt <= tv+int64(600*time.Millisecond)))
	}
}

// vpH_C06_T_no_give_up: transient failures before the store recovers: Watch() fails (k times), or the watch
// channel is closed by the server; afterwards a vacancy occurs without notification; the bound applies
// again: the candidate must not have given up.
func vpH_C06_T_no_give_up() {
	H := time.Second
	vpSetOpt("rand-fixed", 1)
	kind := vpChoose("fault", 2)
	s := &vpFollowerScn{H: H}
	s.st = vpNewStore("g", 0)
	s.st.write("env:other", "create", vpRecMk("other", "tok-other", 0), false, 0)
	s.kv = vpHandle(s.st, "a")
	if kind == 0 {
		s.kv.watchFailLeft = 1 + vpChoose("watch-failures", 2)
	} else {
		s.st.watchMode = 1 // the watch channel is closed right after the initial value (server-side close)
	}
	cfg := vpBaseConfig("a", H, 3*H)
	cfg.ValidationInterval = time.Hour
	s.e = vpMustNew(&vpProvider{s.kv}, cfg)
	s.cb = &vpCallbacks{}
	s.cb.install(s.e)
	_ = s.e.Start(vpRootCtx())
	time.Sleep(2 * time.Second) // faults cease: from now on the store is healthy
	s.st.watchMode = 0
	s.st.noEvents = true
	s.st.write("env:other", "delete", nil, true, 0)
	tv := vpNow()
	time.Sleep(1200 * time.Millisecond)
	vpQuiesce()
	vpCover("C06.no-give-up")
	vpAssert("C06.no-give-up", s.cb.promotes >= 1 && s.e.IsLeader())
	vpAssert("C06.no-give-up:time", vpImplies(s.cb.promotes >= 1, s.cb.promoteAt <= tv+int64(600*time.Millisecond+500*time.Millisecond)))
}

var vpC06StopYield bool

// vpH_C06_T_second_vacancy: a candidate that already led once (through the follower path) is deposed by a
// heartbeat conflict at an explorer-chosen store-visible point and, later, the record becomes vacant again
// without notification: it must fill the vacancy within the bound (its follower-side machinery must have
// survived its own term).
func vpH_C06_T_second_vacancy() {
	H := time.Second
	vpSetOpt("rand-fixed", 1)
	vpC06StopYield = true
	s := vpFollowingInstance(H, nil)
	vpC06StopYield = false
	time.Sleep(450 * time.Millisecond)
	s.st.write("env:other", "delete", nil, true, 0)
	time.Sleep(200 * time.Millisecond)
	vpQuiesce()
	if !s.e.IsLeader() {
		vpEndPath("not-elected")
	}
	s.st.noEvents = true
	go func() {
		vpYieldLazy("env.preempt", 2*H)
		s.st.write("env:hi", "update", vpRecMk("hi", "tok-hi", 9), false, s.st.lastSeq)
		vpEvent("preempted")
	}()
	time.Sleep(3*H + H/2)
	vpQuiesce()
	if s.e.IsLeader() {
		vpEndPath("still-leader")
	}
	s.st.write("env:hi", "delete", nil, true, 0)
	tv := vpNow()
	time.Sleep(1200 * time.Millisecond)
	vpQuiesce()
	vpCover("C06.second-vacancy")
	vpAssert("C06.filled-in-bound", s.e.IsLeader() && s.cb.promotes >= 2)
	vpAssert("C06.filled-in-bound:time", vpImplies(s.cb.promotes >= 2, s.cb.promoteAt <= tv+int64(600*time.Millisecond)))
}

// vpH_C06_T_restart_stuck: a follower's periodic Get is swallowed by the store (it fails only after the client's
// 5s request time-out); Stop gives up waiting after 5s; the election is started again while that call is still
// outstanding; later the record becomes vacant without notification: the restarted candidate must fill it.
func vpH_C06_T_restart_stuck() {
	H := time.Second
	vpSetOpt("rand-fixed", 1)
	s := vpFollowingInstance(H, nil)
	s.st.noEvents = true
	time.Sleep(450 * time.Millisecond) // first acquisition round is over; the next store operation is the periodic Get
	s.kv.faults = []int{vpFaultHang}
	s.kv.faultLeft = 1
	s.kv.faultOps = "get"
	s.kv.faultForce = true
	s.kv.hangLat = 9 * time.Second // this request is answered (with an error) only after 9s
	time.Sleep(100 * time.Millisecond)
	tStop := vpNow()
	_ = s.e.Stop()
	vpAssert("C09.returns-in-bound", vpNow()-tStop <= int64(5*time.Second)) // Stop's own bounded wait, whatever the store does
	_ = s.e.Start(vpRootCtx())
	time.Sleep(6 * time.Second) // the stuck call of the previous run has returned by now
	vpQuiesce()
	s.st.write("env:other", "delete", nil, true, 0)
	tv := vpNow()
	time.Sleep(1200 * time.Millisecond)
	vpQuiesce()
	vpCover("C06.restart-stuck")
	vpAssert("C06.no-give-up", s.e.IsLeader() && s.cb.promotes >= 1)
	vpAssert("C06.no-give-up:time", vpImplies(s.cb.promotes >= 1, s.cb.promoteAt <= tv+int64(600*time.Millisecond)))
}

// vpH_C06_T_vacancy_after_reconnect: connection monitoring is enabled; the follower sees a disconnect and a
// reconnect notification (a blip); later the owner's record vanishes without any watch notification. The
// periodic check must still find the vacancy: leader within 500 ms + 100 ms.
func vpH_C06_T_vacancy_after_reconnect() {
	H := time.Second
	vpSetOpt("rand-fixed", 1)
	st := vpNewStore("g", 0)
	st.write("env:other", "create", vpRecMk("other", "tok-other", 0), false, 0)
	kv := vpHandle(st, "a")
	conn := &nats.Conn{}
	cfg := vpBaseConfig("a", H, 3*H)
	cfg.ValidationInterval = time.Hour
	e := vpMustNew(&vpConnProvider{kv: kv, conn: conn}, cfg)
	cb := &vpCallbacks{}
	cb.install(e)
	_ = e.Start(vpRootCtx())
	time.Sleep(700 * time.Millisecond)
	vpQuiesce()
	vpAssert("harness.monitor-wired", conn.Opts.DisconnectedCB != nil && conn.Opts.ReconnectedCB != nil)
	if vpChoose("blip", 2) == 1 {
		conn.Opts.DisconnectedCB(conn)
		time.Sleep(200 * time.Millisecond)
		conn.Opts.ReconnectedCB(conn)
		time.Sleep(300 * time.Millisecond)
	}
	vpQuiesce()
	st.noEvents = true
	st.write("env:other", "delete", nil, true, 0)
	tv := vpNow()
	time.Sleep(1200 * time.Millisecond)
	vpQuiesce()
	vpCover("C06.vacancy-after-reconnect")
	vpAssert("C06.filled-in-bound", e.IsLeader() && cb.promotes >= 1)
	vpAssert("C06.filled-in-bound:time", vpImplies(cb.promotes >= 1, cb.promoteAt <= tv+int64(600*time.Millisecond)))
	_ = e.Stop()
}

// vpH_C06_T_vacancy_slow_store: a short valid configuration (H = 100 ms, TTL = 300 ms) against a healthy store
// that needs 80 ms per operation; the owner's record vanishes without notification: leader within the periodic
// bound plus the latencies of the operations involved.
func vpH_C06_T_vacancy_slow_store() {
	H := 100 * time.Millisecond
	vpSetOpt("rand-fixed", 1)
	s := vpFollowingInstance(H, nil)
	s.kv.lat = 80 * time.Millisecond
	s.kv.latMin = s.kv.lat
	s.kv.opLeft = 60
	time.Sleep(1200 * time.Millisecond)
	vpQuiesce()
	s.st.noEvents = true
	s.st.write("env:other", "delete", nil, true, 0)
	tv := vpNow()
	time.Sleep(1500 * time.Millisecond)
	vpQuiesce()
	vpCover("C06.vacancy-slow-store")
	vpAssert("C06.filled-in-bound", s.e.IsLeader() && s.cb.promotes >= 1)
	vpAssert("C06.filled-in-bound:time", vpImplies(s.cb.promotes >= 1, s.cb.promoteAt <= tv+int64(600*time.Millisecond+4*80*time.Millisecond)))
	_ = s.e.Stop()
}

// vpH_C06_T_vacancy_after_outage: the record vanishes without notification while the store rejects every write
// for 1.5 s (transient errors: the follower's rounds fail again and again); once the store works again the
// vacancy is filled within the usual bound — earlier failures leave nothing behind that keeps the candidate out.
func vpH_C06_T_vacancy_after_outage() {
	H := time.Second
	vpSetOpt("rand-fixed", 1)
	s := vpFollowingInstance(H, nil)
	s.kv.opLeft = 80
	time.Sleep(700 * time.Millisecond)
	vpQuiesce()
	s.st.noEvents = true
	s.st.write("env:other", "delete", nil, true, 0)
	s.kv.faults = []int{vpFaultErr}
	s.kv.faultOps = "create"
	s.kv.faultLeft = 1000
	s.kv.faultForce = true
	time.Sleep(1500 * time.Millisecond)
	s.kv.faultLeft = 0
	t2 := vpNow()
	time.Sleep(1500 * time.Millisecond)
	vpQuiesce()
	vpCover("C06.vacancy-after-outage")
	vpAssert("C06.filled-in-bound", s.e.IsLeader() && s.cb.promotes >= 1)
	vpAssert("C06.filled-in-bound:time", vpImplies(s.cb.promotes >= 1, s.cb.promoteAt <= t2+int64(700*time.Millisecond)))
	_ = s.e.Stop()
}
