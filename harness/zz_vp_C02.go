//go:build verif

package leader

import (
	"context"
	"time"
)

// claim monitor: whenever the flag goes up, and at every check point while it is up, the live record names
// this instance and carries its current token.
func vpClaimBacked(e *kvElection, st *vpStore, id string) bool {
	if !e.IsLeader() {
		return true
	}
	return st.live() && st.writer == id && vpRecID(st.val) == id && vpRecTok(st.val) == e.Token()
}

// vpH_C02_T_margin: symbolic heartbeat interval H in [1ms,10s], TTL in [3H, 3H+2s], every store latency
// symbolic below H/2: while the instance leads, its record never lapses between two refreshes.
func vpH_C02_T_margin() {
	H := time.Duration(vpInt64("H"))
	ttl := time.Duration(vpInt64("ttl"))
	vpAssume(vpAnd(H >= time.Millisecond, H <= 10*time.Second))
	vpAssume(vpAnd(ttl >= 3*H, ttl <= 3*H+2*time.Second))
	st := vpNewStore("g", ttl)
	kv := vpHandle(st, "a")
	cfg := vpBaseConfig("a", H, ttl)
	cfg.ValidationInterval = time.Hour
	mt := &vpMetrics{}
	cfg.Metrics = mt
	e := vpMustNew(&vpProvider{kv}, cfg)
	mt.onFlag = func(v float64) {
		if v == 1 {
			vpAssert("C02.claim-backed", vpClaimBacked(e, st, "a"))
		}
	}
	st.onWrite = func(by, op string) {
		if by == "a" && op == "update" {
			// the record this refresh replaces must still have been live (age < TTL)
			vpAssert("C02.ttl-margin", vpNow()-st.writtenAt < int64(ttl))
		}
	}
	cb := &vpCallbacks{}
	cb.install(e)
	kv.lat = H/2 - 1
	kv.opLeft = 5
	_ = e.Start(vpRootCtx())
	time.Sleep(3*H + H/2)
	vpQuiesce()
	vpCover("C02.margin")
	vpAssert("C02.claim-backed", vpClaimBacked(e, st, "a"))
	vpAssert("C02.still-leader", e.IsLeader() && cb.demotes == 0)
}

// vpH_C02_T_churn: one real instance next to "the others" (environment obeying the protocol: it creates the
// record when vacant, refreshes and deletes only its own record, never preempts); the real instance is
// stopped (every variant) and restarted at explorer-chosen points. At every flag change and at the end the
// claim must be backed by the live record.
func vpH_C02_T_churn() { vpC02Churn(1) }

// thorough: the others perform two protocol-conforming actions
func vpH_C02_T_churn2() { vpC02Churn(2) }

func vpC02Churn(envActions int) {
	H := time.Second
	vpSetOpt("rand-fixed", 1)
	st := vpNewStore("g", 3*H)
	kv := vpHandle(st, "a")
	cfg := vpBaseConfig("a", H, 3*H)
	cfg.ValidationInterval = time.Hour
	mt := &vpMetrics{}
	cfg.Metrics = mt
	e := vpMustNew(&vpProvider{kv}, cfg)
	mt.onFlag = func(v float64) {
		if v == 1 {
			vpAssert("C02.claim-backed", vpClaimBacked(e, st, "a"))
			vpAssert("C02.one-leader", !(st.live() && st.writer == "env:other"))
		}
	}
	cb := &vpCallbacks{}
	cb.install(e)
	// the others: up to two protocol-conforming actions at store-visible points
	go func() {
		for i := 0; i < envActions; i++ {
			if i == 0 {
				vpYieldLazy("env.other", 3*H)
			} else {
				vpDelay("env.other-gap", 0, H) // the second action follows the first after a symbolic delay
			}
			switch {
			case !st.live():
				st.write("env:other", "create", vpRecMk("other", "tok-o", 0), false, 0)
				vpEvent("other-created")
			case st.writer == "env:other":
				if vpChoose("other-act", 2) == 0 {
					st.write("env:other", "update", vpRecMk("other", "tok-o", 0), false, st.lastSeq)
				} else {
					st.write("env:other", "delete", nil, true, 0)
					vpEvent("other-left")
				}
			}
		}
	}()
	_ = e.Start(vpRootCtx())
	variant := 1 // thorough (two environment actions): StopWithContext{DeleteKey} only, no restart
	if envActions == 1 {
		variant = vpChoose("variant", 3)
	}
	stopped := false
	go func() {
		vpYieldLazy("api.stop", 2*H)
		switch variant {
		case 0:
			_ = e.Stop()
		case 1:
			_ = e.StopWithContext(context.Background(), StopOptions{DeleteKey: true})
		case 2:
			_ = e.StopWithContext(context.Background(), StopOptions{DeleteKey: true, WaitForDemote: true})
		}
		stopped = true
		vpAssert("C02.claim-backed", !e.IsLeader())
		if envActions == 1 && vpChoose("restart", 2) == 1 {
			_ = e.Start(vpRootCtx())
		}
	}()
	time.Sleep(3*H + H/2)
	vpQuiesce()
	vpCover("C02.churn")
	vpAssert("C02.claim-backed", vpClaimBacked(e, st, "a"))
	vpAssert("C02.one-leader", !(e.IsLeader() && st.live() && st.writer == "env:other"))
	_ = stopped
	_ = e.Stop()
}

// vpH_C02_T_restart: a leader is stopped (plain Stop, the record stays until it expires) and started again
// after a symbolic delay in [0, 3.5H]; whenever it reports leadership again the claim must be backed by a
// live record carrying its current token, and the record must not lapse under a standing claim.
func vpH_C02_T_restart() {
	H := time.Second
	vpSetOpt("rand-fixed", 1)
	st := vpNewStore("g", 3*H)
	kv := vpHandle(st, "a")
	cfg := vpBaseConfig("a", H, 3*H)
	cfg.ValidationInterval = time.Hour
	mt := &vpMetrics{}
	cfg.Metrics = mt
	e := vpMustNew(&vpProvider{kv}, cfg)
	mt.onFlag = func(v float64) {
		if v == 1 {
			vpAssert("C02.claim-backed", vpClaimBacked(e, st, "a"))
		}
	}
	st.onExpire = func(owner string) {
		vpAssert("C02.claim-backed:lapsed-under-claim", !(owner == "a" && e.IsLeader()))
	}
	cb := &vpCallbacks{}
	cb.install(e)
	_ = e.Start(vpRootCtx())
	time.Sleep(H + H/2)
	_ = e.Stop()
	vpDelay("restart-after", 0, 3*H+H/2)
	_ = e.Start(vpRootCtx())
	time.Sleep(2*H + H/2)
	vpQuiesce()
	_ = st.live()
	vpCover("C02.restart")
	vpAssert("C02.claim-backed", vpClaimBacked(e, st, "a"))
	_ = e.Stop()
}
