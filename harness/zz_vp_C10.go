//go:build verif

package leader

import (
	"strings"
	"time"
)

// vpH_C10_T_safety: a candidate with symbolic priority and takeover flag starts next to a live record of
// another instance with symbolic stored priority (or arbitrary bytes); between any two store operations of
// the candidate a third party may replace the record (symbolic priority). Every replacement of a live foreign
// record by the candidate must be revision-checked, takeover-enabled and of strictly higher priority than
// the record actually replaced.
func vpH_C10_T_safety() { vpC10Safety(1) }

// thorough: the third party writes twice (two symbolic priorities), each write at any store-operation leg
func vpH_C10_T_safety2() { vpC10Safety(2) }

func vpC10Safety(thirdWrites int) {
	prio := vpInt("prio")
	takeover := vpBool("takeover")
	vpAssume(vpAnd(prio >= 0, prio <= 1<<62))
	vpAssume(vpImplies(takeover, prio > 0)) // validity of the configuration (C16)
	st := vpNewStore("g", 0)
	switch vpChoose("incumbent", 2) {
	case 0:
		p0 := vpInt("prio0")
		vpAssume(vpAnd(p0 >= 0, p0 <= 1<<62))
		st.write("env:other", "create", vpRecMk("other", "tok-other", p0), false, 0)
	case 1:
		st.write("env:outsider", "create", vpRec("r0"), false, 0)
	}
	kv := vpHandle(st, "a")
	cfg := vpBaseConfig("a", time.Second, 3*time.Second)
	cfg.ValidationInterval = time.Hour
	cfg.Priority = prio
	cfg.AllowPriorityTakeover = takeover
	e := vpMustNew(&vpProvider{kv}, cfg)
	if vpChoose("interference", 2) == 1 {
		go func() {
			for k := 0; k < thirdWrites; k++ {
				vpYield("env.third") // schedulable at every store-operation leg of the candidate
				p3 := vpInt("prio3")
				vpAssume(vpAnd(p3 >= 0, p3 <= 1<<62))
				st.write("env:third", "update", vpRecMk("third", "tok-third", p3), false, st.lastSeq)
				vpEvent("third-wrote")
			}
		}()
	}
	_ = e.Start(vpRootCtx())
	time.Sleep(300 * time.Millisecond) // start attempt, watcher start, first acquisition round (rand fixed)
	vpQuiesce()
	vpCover("C10.safety")
	vpAuditLog(st, "a", takeover, prio, false)
	_ = e.Stop()
}

// vpH_C10_T_prompt: fault-free (store latency zero), a strictly higher-priority takeover-enabled candidate
// started at a symbolic instant next to a heartbeating incumbent (environment) becomes leader within 3H.
func vpH_C10_T_prompt() {
	H := time.Second
	vpSetOpt("rand-fixed", 1)
	st := vpNewStore("g", 3*H)
	st.write("env:other", "create", vpRecMk("other", "tok-other", 1), false, 0)
	// incumbent heartbeats every H (environment thread obeying the protocol)
	stop := false
	go func() {
		for i := 0; i < 4 && !stop; i++ {
			time.Sleep(H)
			if st.live() && st.writer == "env:other" {
				st.write("env:other", "update", vpRecMk("other", "tok-other", 1), false, st.lastSeq)
			}
		}
	}()
	if vpChoose("start", 2) == 0 {
		time.Sleep(H / 4)
	} else {
		time.Sleep(H - 25*time.Millisecond) // just before a heartbeat of the incumbent
	}
	t0 := vpNow()
	kv := vpHandle(st, "a")
	// adversarial timing: the first k (0..2) reads of the candidate's takeover attempts are each followed at once
	// by a refresh of the incumbent, so that the conditional write loses the race (start-up attempt, then the
	// first watch-triggered attempt); afterwards the incumbent only heartbeats every H
	lost := vpChoose("lost-races", 3)
	kv.afterApply = func(op string) {
		if op == "get" && lost > 0 && st.live() && st.writer == "env:other" {
			lost--
			st.write("env:other", "update", vpRecMk("other", "tok-other", 1), false, st.lastSeq)
			vpEvent("race-lost")
		}
	}
	cfg := vpBaseConfig("a", H, 3*H)
	cfg.ValidationInterval = time.Hour
	cfg.Priority = 5
	cfg.AllowPriorityTakeover = true
	e := vpMustNew(&vpProvider{kv}, cfg)
	cb := &vpCallbacks{}
	cb.install(e)
	_ = e.Start(vpRootCtx())
	time.Sleep(3 * H)
	vpQuiesce()
	stop = true
	vpCover("C10.prompt")
	vpAssert("C10.prompt-takeover", cb.promotes >= 1 && cb.promoteAt-t0 <= int64(3*H))
	vpAuditLog(st, "a", true, 5, false)
	_ = e.Stop()
}

// vpH_C10_T_prompt_watch: the candidate (priority 5) is a settled follower of a priority-9 leader (all its
// attempts failed legitimately, no acquisition round is running); that leader crashes and a priority-1
// instance gets the record first. From then on only the candidate's watch-triggered takeover path can act:
// its first k (0..2) attempts lose the race against a refresh of the incumbent; it must lead within 3H+.
func vpH_C10_T_prompt_watch() {
	H := []time.Duration{time.Second, 30 * time.Millisecond}[vpChoose("H", 2)]
	vpSetOpt("rand-fixed", 1)
	st := vpNewStore("g", 0)
	st.write("env:hi", "create", vpRecMk("hi", "tok-hi", 9), false, 0)
	kv := vpHandle(st, "a")
	lost := vpChoose("lost-races", 3)
	kv.afterApply = func(op string) {
		if op == "get" && lost > 0 && st.live() && st.writer == "env:low" && strings.Contains(vpSite(), "handleWatchEvent") {
			lost--
			st.write("env:low", "update", vpRecMk("low", "tok-low", 1), false, st.lastSeq)
			vpEvent("race-lost")
		}
	}
	cfg := vpBaseConfig("a", H, 3*H)
	cfg.ValidationInterval = time.Hour
	cfg.Priority = 5
	cfg.AllowPriorityTakeover = true
	e := vpMustNew(&vpProvider{kv}, cfg)
	cb := &vpCallbacks{}
	cb.install(e)
	_ = e.Start(vpRootCtx())
	time.Sleep(H + 500*time.Millisecond) // settled follower: start attempt and first round are over
	vpQuiesce()
	vpAssert("harness.follower", !e.IsLeader())
	// hi is gone (expired silently), low created the record before anybody else
	st.noEvents = true
	st.write("env:hi", "delete", nil, true, 0)
	st.noEvents = false
	st.write("env:low", "create", vpRecMk("low", "tok-low", 1), false, 0)
	t0 := vpNow()
	go func() { // low heartbeats every H
		for i := 0; i < 4; i++ {
			time.Sleep(H)
			if st.live() && st.writer == "env:low" {
				st.write("env:low", "update", vpRecMk("low", "tok-low", 1), false, st.lastSeq)
			}
		}
	}()
	time.Sleep(4*H + H/2)
	vpQuiesce()
	vpCover("C10.prompt-watch")
	// every lost race costs one heartbeat of the incumbent: leader within (1 + lost races) heartbeats, at most 3H
	vpAssert("C10.prompt-takeover", cb.promotes >= 1 && cb.promoteAt-t0 <= int64(3*H+H/10))
	vpAuditLog(st, "a", true, 5, false)
	_ = e.Stop()
}

// vpH_C10_T_late_round_sees_preemptor: a takeover-enabled instance (priority 5) fills a vacancy with two
// acquisition rounds in flight (two vacancy events; the second round's Create takes 600 ms to reach the store).
// The faster round wins; a higher-priority instance (priority 9) then legitimately preempts the new leader,
// unnoticed; only then does the slower round's Create arrive and fail, and that round goes on to look at the
// record (takeover attempt against a record of higher priority: refused). Nothing the instance does afterwards
// may overwrite the preemptor's record: replacement only with strictly higher priority.
func vpH_C10_T_late_round_sees_preemptor() {
	H := time.Second
	vpSetOpt("rand-fixed", 1)
	vpOtherPrio = 9
	s := vpFollowingInstance(H, func(cfg *ElectionConfig) {
		cfg.Priority = 5
		cfg.AllowPriorityTakeover = true
	})
	vpOtherPrio = 0
	time.Sleep(700 * time.Millisecond)
	vpQuiesce()
	s.kv.latOps = "create"
	s.kv.latSeq = []time.Duration{150 * time.Millisecond, 600 * time.Millisecond}
	s.kv.opLeft = 40
	s.st.write("env:other", "delete", nil, true, 0)
	s.st.write("env:other", "delete", nil, true, 0)
	time.Sleep(400 * time.Millisecond) // the faster round has won
	vpQuiesce()
	if !s.e.IsLeader() {
		vpEndPath("not-elected")
	}
	s.st.noEvents = true
	s.st.write("env:x", "update", vpRecMk("x", "tok-x", 9), false, s.st.lastSeq)
	time.Sleep(2*H + H/2)
	vpQuiesce()
	vpCover("C10.late-round-sees-preemptor")
	vpAssert("C10.stays-with-highest", s.st.live() && s.st.writer == "env:x")
	vpAssert("C10.preempted-steps-down", !s.e.IsLeader())
	vpAuditLog(s.st, "a", true, 5, false)
	_ = s.e.Stop()
}

// vpH_C10_T_preempted_during_verification: connection monitoring on; after a disconnect/reconnect blip the
// leader verifies its record (a read, then the token validation's read); a priority-9 instance legitimately
// preempts it right after one of those reads (explorer's choice which). Whatever the verification concludes,
// nothing the old leader does afterwards overwrites the preemptor's record.
func vpH_C10_T_preempted_during_verification() {
	H := time.Second
	s := vpConnInstance(H, 0, nil)
	s.kv.opLeft = 40
	s.st.noEvents = true
	after := 1 + vpChoose("preempt-after-read", 3)
	reads := 0
	s.kv.afterApply = func(op string) {
		if op == "get" {
			reads++
			if reads == after && s.st.live() && s.st.writer == "a" {
				s.st.write("env:x", "update", vpRecMk("x", "tok-x", 9), false, s.st.lastSeq)
				vpEvent("x-preempted")
			}
		}
	}
	time.Sleep(200 * time.Millisecond)
	s.notify(0)
	time.Sleep(200 * time.Millisecond)
	s.notify(1)
	time.Sleep(2*H + H/2)
	vpQuiesce()
	vpCover("C10.preempted-during-verification")
	if s.st.writer != "a" || !s.st.live() {
		vpAssert("C10.stays-with-highest", s.st.live() && s.st.writer == "env:x")
		vpAssert("C10.preempted-steps-down", !s.e.IsLeader())
	}
	vpAuditLog(s.st, "a", false, 0, false)
	_ = s.e.Stop()
}
