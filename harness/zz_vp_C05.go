//go:build verif

package leader

import "time"

// vpH_C05_T_terms: three terms of one takeover-enabled instance: (1) it preempts a lower-priority owner,
// (2) after being preempted itself and the preemptor leaving it acquires by Create, (3) after a restart.
// Tokens of distinct acquisitions are pairwise distinct and never seen before; every refresh repeats its
// term's token and identity; OnPromote/Token()/Status() agree with the record.
func vpH_C05_T_terms() {
	H := time.Second
	vpSetOpt("rand-fixed", 1)
	s := vpFollowingInstance(H, func(cfg *ElectionConfig) {
		cfg.Priority = 5
		cfg.AllowPriorityTakeover = true
	})
	var toks []string
	check := func(where string) {
		vpQuiesce()
		if s.e.IsLeader() && s.st.live() && s.st.writer == "a" {
			vpAssert("C05.token-getters", s.e.Token() == vpRecTok(s.st.val) && s.e.Status().Token == vpRecTok(s.st.val))
			vpAssert("C05.promote-arg", s.cb.lastTok == vpRecTok(s.st.val))
			toks = append(toks, s.e.Token())
		}
	}
	time.Sleep(H + H/2) // start-up takeover over the priority-0 owner, one refresh
	check("term1")
	if !s.e.IsLeader() {
		vpEndPath("no-first-term")
	}
	// preempted by priority 9; the old leader notices by heartbeat or watcher
	s.st.write("env:hi", "update", vpRecMk("hi", "tok-hi", 9), false, s.st.lastSeq)
	if vpChoose("preemptor-stays", 2) == 1 {
		time.Sleep(H + H/2)
	} else {
		time.Sleep(200 * time.Millisecond) // re-election inside the same heartbeat interval: the old heartbeat loop survives
	}
	vpQuiesce()
	// the preemptor leaves
	s.st.write("env:hi", "delete", nil, true, 0)
	time.Sleep(H + H/2)
	check("term2")
	// restart
	_ = s.e.Stop()
	s.st.write("env:cleanup", "delete", nil, true, 0)
	_ = s.e.Start(vpRootCtx())
	time.Sleep(H + H/2)
	check("term3")
	vpCover("C05.terms")
	vpAssert("C05.three-terms", len(toks) == 3)
	for i := range toks {
		for j := 0; j < i; j++ {
			vpAssert("C05.fresh-per-acquire", toks[i] != toks[j])
		}
	}
	vpAuditLog(s.st, "a", true, 5, false)
	_ = s.e.Stop()
}

// vpH_C05_T_late_create: two acquisition rounds of one follower run concurrently (two vacancy events); the
// second Create takes 0.3, 1.3 or 2.3 s to reach the store, and the record of the term won by the
// faster one may be purged (silently, at an explorer-chosen point) before the slower Create arrives — which
// then succeeds and starts a second acquisition of an instance that already believes it leads. Whatever the
// instance does with that, the token rules hold: accessors and the promotion argument equal the token in its
// live record, every refresh repeats the token of the acquisition it follows, acquisitions use fresh tokens.
func vpH_C05_T_late_create() {
	H := time.Second
	vpSetOpt("rand-fixed", 1)
	s := vpFollowingInstance(H, nil)
	time.Sleep(700 * time.Millisecond)
	vpQuiesce()
	s.kv.latOps = "create"
	s.kv.latSeq = []time.Duration{150 * time.Millisecond, []time.Duration{300 * time.Millisecond, 1300 * time.Millisecond, 2300 * time.Millisecond}[vpChoose("slow-create", 3)]}
	s.kv.opLeft = 24
	s.st.write("env:other", "delete", nil, true, 0) // delete marker ...
	s.st.write("env:other", "delete", nil, true, 0) // ... and purge marker: two vacancy events
	s.st.noEvents = true
	go func() {
		vpYieldLazy("env.purge", 2*time.Second)
		if s.st.live() && s.st.writer == "a" {
			s.st.write("env:operator", "delete", nil, true, 0)
			vpEvent("purged")
		}
	}()
	time.Sleep(4 * time.Second)
	vpQuiesce()
	vpCover("C05.late-create")
	if s.e.IsLeader() && s.st.live() && s.st.writer == "a" {
		vpAssert("C05.token-getters", s.e.Token() == vpRecTok(s.st.val) && s.e.Status().Token == vpRecTok(s.st.val))
		vpAssert("C05.promote-arg", s.cb.lastTok == vpRecTok(s.st.val))
	}
	vpAuditLog(s.st, "a", false, 0, false)
	_ = s.e.Stop()
}

// vpH_C05_T_refresh_after_demotion: the leader's heartbeat tick is inside the (user-provided) health check when
// the term is ended by a path that leaves the record untouched (ValidateTokenOrDemote with a failing read,
// placed by the explorer); the tick then completes. If it still refreshes the record, the refresh repeats the
// term's token and identity (audit of the store log), whatever the accessors say by then.
func vpH_C05_T_refresh_after_demotion() {
	hc := &vpHealth{yieldInCheck: true, forceHealthy: true}
	tm := vpTiming{time.Second, 3 * time.Second}
	s := vpLeadingInstance(tm, 0, func(cfg *ElectionConfig) { cfg.HealthChecker = hc })
	s.st.ttl = 0
	s.kv.opLeft = 12
	go func() {
		vpYieldLazy("api.validate", tm.H+tm.H/2)
		s.kv.faults = []int{vpFaultErr}
		s.kv.faultOps = "get"
		s.kv.faultLeft = 1
		s.kv.faultForce = true
		_ = s.e.ValidateTokenOrDemote(vpRootCtx())
		s.kv.faultLeft = 0
		vpEvent("validated")
	}()
	time.Sleep(2*tm.H + tm.H/2)
	vpQuiesce()
	vpCover("C05.refresh-after-demotion")
	vpAuditLog(s.st, "a", false, 0, false)
	_ = s.e.Stop()
}

// vpH_C05_T_two_takeover_rounds: a takeover-enabled instance (priority 5) follows an owner it cannot preempt;
// the record then passes to a lower-priority owner that refreshes it twice at once: two
// takeover rounds of the same instance in flight. The answer to the first round's read arrives only after the
// second round has won. Accessors, promotion argument and record agree on the token afterwards, and every
// refresh repeats it.
func vpH_C05_T_two_takeover_rounds() {
	H := time.Second
	vpSetOpt("rand-fixed", 1)
	vpOtherPrio = 9
	s := vpFollowingInstance(H, func(cfg *ElectionConfig) {
		cfg.Priority = 5
		cfg.AllowPriorityTakeover = true
	})
	vpOtherPrio = 0
	time.Sleep(700 * time.Millisecond)
	vpQuiesce()
	s.kv.opLeft = 40
	s.kv.getRespSeq = []time.Duration{300 * time.Millisecond}
	s.st.write("env:low", "update", vpRecMk("low", "tok-low", 1), false, s.st.lastSeq) // change of leader: noted
	s.st.write("env:low", "update", vpRecMk("low", "tok-low", 1), false, s.st.lastSeq) // refresh: takeover round
	s.st.write("env:low", "update", vpRecMk("low", "tok-low", 1), false, s.st.lastSeq) // refresh: takeover round
	time.Sleep(2*H + H/2)
	vpQuiesce()
	vpCover("C05.two-takeover-rounds")
	if s.e.IsLeader() && s.st.live() && s.st.writer == "a" {
		vpAssert("C05.token-getters", s.e.Token() == vpRecTok(s.st.val) && s.e.Status().Token == vpRecTok(s.st.val))
		vpAssert("C05.promote-arg", s.cb.lastTok == vpRecTok(s.st.val))
	}
	vpAuditLog(s.st, "a", true, 5, false)
	_ = s.e.Stop()
}

// vpH_C05_T_two_objects: two lives of one instance id: an election object leads and is stopped (record
// released), another instance holds the record for a while, then a NEW election object with the same InstanceID
// (a restarted process) leads on the same store. The tokens of the two lives differ and neither ever appeared
// in the record before its acquisition.
func vpH_C05_T_two_objects() {
	H := time.Second
	vpSetOpt("rand-fixed", 1)
	st := vpNewStore("g", 0)
	var toks []string
	for life := 0; life < 2; life++ {
		kv := vpHandle(st, "a")
		cfg := vpBaseConfig("a", H, 3*H)
		cfg.ValidationInterval = time.Hour
		e := vpMustNew(&vpProvider{kv}, cfg)
		cb := &vpCallbacks{}
		cb.install(e)
		_ = e.Start(vpRootCtx())
		time.Sleep(H + H/2)
		vpQuiesce()
		vpAssert("harness.leader-after-start", e.IsLeader())
		vpAssert("C05.token-getters", e.Token() == vpRecTok(st.val) && cb.lastTok == vpRecTok(st.val))
		toks = append(toks, e.Token())
		_ = e.StopWithContext(vpRootCtx(), StopOptions{DeleteKey: true})
		vpQuiesce()
		if life == 0 {
			st.write("env:b", "create", vpRecMk("b", "tok-b", 0), false, 0)
			st.write("env:b", "delete", nil, true, 0)
		}
	}
	vpCover("C05.two-objects")
	vpAssert("C05.fresh-per-acquire", toks[0] != toks[1])
	vpAuditLog(st, "a", false, 0, true)
}
