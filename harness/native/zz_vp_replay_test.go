//go:build verif

package leader

import (
	"encoding/json"
	"fmt"
	"os"
	"runtime"
	"testing"
	"testing/synctest"
	"time"
)

// TestVPReplay replays one counterexample / witness file (VP_REPLAY_FILE) against the natively
// compiled library and writes the observed outcome (failed assertion ids, events) to VP_REPLAY_OUT.
func TestVPReplay(t *testing.T) {
	path := os.Getenv("VP_REPLAY_FILE")
	if path == "" {
		t.Skip("no VP_REPLAY_FILE")
	}
	b, err := os.ReadFile(path)
	if err != nil {
		t.Fatal(err)
	}
	var in vpReplayFile
	if err := json.Unmarshal(b, &in); err != nil {
		t.Fatal(err)
	}
	fn := vpRegistry[in.Harness]
	if fn == nil {
		t.Fatalf("unknown harness %s", in.Harness)
	}
	outPath := os.Getenv("VP_REPLAY_OUT")
	write := func() {
		vpR.mu.Lock()
		o := vpR.out
		vpR.mu.Unlock()
		vpWriteOutcome(outPath, []vpOutcome{o})
	}
	body := func() {
		defer func() {
			if r := recover(); r != nil {
				vpR.mu.Lock()
				vpR.out.Panic = fmt.Sprint(r)
				vpR.mu.Unlock()
			}
		}()
		fn()
	}
	if !in.Threaded {
		// sequential harness: repeat when the library draws random numbers the replay cannot control
		n := in.Repeat
		if n < 1 {
			n = 1
		}
		for i := 0; i < n; i++ {
			vpReset(&in)
			body()
			if len(vpR.out.Failed) > 0 || vpR.out.Panic != "" {
				break
			}
		}
		write()
		return
	}
	synctest.Test(t, func(t *testing.T) {
		vpReset(&in)
		// synctest.Wait must not be called by two goroutines at once: serialise with a channel (a goroutine
		// blocked on a channel is durably blocked, so the other Wait can complete)
		waitSem := make(chan struct{}, 1)
		wait := func() {
			waitSem <- struct{}{}
			synctest.Wait()
			<-waitSem
		}
		vpQuiesceHook = wait
		step := wait
		if in.Spin {
			// goroutines blocked on a sync.Mutex held by a parked goroutine are not durably blocked: synctest.Wait
			// would never return. Step by yielding the processor until the next expected label has arrived.
			step = func() {}
		}
		stop := make(chan struct{})
		go func() {
			for k, ev := range in.Resumes {
				lbl := ev.Label
				if ev.Lazy {
					// a lazily parked goroutine (API caller, environment) is released in the situation the executor
					// chose: the other goroutines it saw parked must be parked, or the recorded quiescent instant reached
					if len(ev.Parked) == 0 && ev.At > 0 {
						if d := time.Duration(ev.At) - time.Since(vpR.start); d > 0 {
							time.Sleep(d)
						}
					}
					for _, pl := range ev.Parked {
						for !vpHasWaiter(pl) {
							select {
							case <-vpR.arrived:
							case <-stop:
								return
							}
						}
					}
				}
				for !vpReleaseNext(lbl) {
					select {
					case <-vpR.arrived:
					case <-stop:
						return
					}
				}
				if in.Spin {
					next := ""
					if k+1 < len(in.Resumes) {
						next = in.Resumes[k+1].Label
					}
					for i := 0; i < 20000; i++ {
						runtime.Gosched()
						if next != "" && vpHasWaiter(next) && i > 200 {
							break
						}
					}
				} else {
					step()
				}
			}
			vpFreeRun()
		}()
		body()
		write() // outcome as of the end of the harness body
		close(stop)
		vpFreeRun()
		vpCleanup()
	})
}
