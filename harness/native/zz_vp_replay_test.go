//go:build verif

package leader

import (
	"encoding/json"
	"fmt"
	"os"
	"runtime"
	"testing"
	"testing/synctest"
)

// TestVPReplay replays one counterexample / witness file (VP_REPLAY_FILE) against the natively
// compiled library and writes the observed outcome (failed assertion ids, events) to VP_REPLAY_OUT.
func TestVPReplay(t *testing.T) {
	path := os.Getenv("VP_REPLAY_FILE")
	if path == "" {
		t.Skip("no VP_REPLAY_FILE")
	}
	b, err := os.ReadFile(path)
	if err != nil {
		t.Fatal(err)
	}
	var in vpReplayFile
	if err := json.Unmarshal(b, &in); err != nil {
		t.Fatal(err)
	}
	fn := vpRegistry[in.Harness]
	if fn == nil {
		t.Fatalf("unknown harness %s", in.Harness)
	}
	outPath := os.Getenv("VP_REPLAY_OUT")
	write := func() {
		vpR.mu.Lock()
		o := vpR.out
		vpR.mu.Unlock()
		vpWriteOutcome(outPath, []vpOutcome{o})
	}
	body := func() {
		defer func() {
			if r := recover(); r != nil {
				vpR.mu.Lock()
				vpR.out.Panic = fmt.Sprint(r)
				vpR.mu.Unlock()
			}
		}()
		fn()
	}
	if !in.Threaded {
		// sequential harness: repeat when the library draws random numbers the replay cannot control
		n := in.Repeat
		if n < 1 {
			n = 1
		}
		for i := 0; i < n; i++ {
			vpReset(&in)
			body()
			if len(vpR.out.Failed) > 0 || vpR.out.Panic != "" {
				break
			}
		}
		write()
		return
	}
	synctest.Test(t, func(t *testing.T) {
		vpReset(&in)
		vpQuiesceHook = func() { synctest.Wait() }
		stop := make(chan struct{})
		go func() {
			for _, lbl := range in.Resumes {
				for !vpReleaseNext(lbl) {
					select {
					case <-vpR.arrived:
					case <-stop:
						return
					}
				}
				for i := 0; i < 50; i++ {
					runtime.Gosched()
				}
			}
			vpFreeRun()
		}()
		body()
		write() // outcome as of the end of the harness body
		close(stop)
		vpFreeRun()
		vpCleanup()
	})
}
