//go:build verif

package leader

// Native bodies of the harness API: the same harness functions and stubs that the symbolic
// executor interprets run here against the natively compiled library, driven by a replay file
// (model values, choices, delays, yield release order) produced by gosym.

import (
	"context"
	"encoding/json"
	"fmt"
	"os"
	"regexp"
	"runtime"
	"strconv"
	"strings"
	"sync"
	"time"
)

type vpReplayFile struct {
	Harness  string            `json:"harness"`
	Inputs   map[string]string `json:"inputs"`
	Chooses  [][2]string       `json:"chooses"`
	Resumes  []vpResume        `json:"resumes"`
	Records  map[string]string `json:"records"` // base64-free: raw JSON text per symbolic record name
	Threaded bool              `json:"threaded"`
	Expect   string            `json:"expect"`
	Repeat   int               `json:"repeat"`
	Spin     bool              `json:"spin"` // a goroutine parks at a yield while holding a mutex: step by spinning, not synctest.Wait
	Race     bool              `json:"race"` // race-detector run: no baton, no recording (both add synchronisation)
}

type vpResume struct {
	Label  string   `json:"label"`
	Lazy   bool     `json:"lazy"`
	Parked []string `json:"parked"`
	At     int64    `json:"at"`
}

type vpOutcome struct {
	Harness string   `json:"harness"`
	Failed  []string `json:"failed"`
	Events  []string `json:"events"`
	Covers  []string `json:"covers"`
	Panic   string   `json:"panic,omitempty"`
	Notes   []string `json:"notes,omitempty"`
}

var vpR struct {
	mu       sync.Mutex
	in       *vpReplayFile
	chooses  map[string][]int
	chooseIx map[string]int
	nameIx   map[string]int
	out      vpOutcome
	start    time.Time
	waiters  map[string][]chan struct{}
	arrived  chan struct{}
	freeRun  bool
	threaded bool
	race     bool
	tokens   []string
	kill     chan struct{}
	root     context.Context
	cancel   context.CancelFunc
}

func vpReset(in *vpReplayFile) {
	vpR.mu.Lock()
	defer vpR.mu.Unlock()
	vpR.in = in
	vpR.chooses = map[string][]int{}
	vpR.chooseIx = map[string]int{}
	vpR.nameIx = map[string]int{}
	for _, c := range in.Chooses {
		v, _ := strconv.Atoi(c[1])
		vpR.chooses[c[0]] = append(vpR.chooses[c[0]], v)
	}
	vpR.out = vpOutcome{Harness: in.Harness}
	vpR.start = time.Now()
	vpR.waiters = map[string][]chan struct{}{}
	vpR.tokens = nil
	vpR.arrived = make(chan struct{}, 1024)
	vpR.freeRun = !in.Threaded || in.Race
	vpR.race = in.Race
	vpR.threaded = in.Threaded
	vpR.kill = make(chan struct{})
	vpR.root, vpR.cancel = context.WithCancel(context.Background())
}

func vpRootCtx() context.Context { return vpR.root }
func vpCleanup() {
	vpR.cancel()
	close(vpR.kill)
}

var vpSan = regexp.MustCompile(`[^A-Za-z0-9_.]`)

func vpInputName(prefix string) string {
	prefix = vpSan.ReplaceAllString(prefix, "_")
	vpR.nameIx[prefix]++
	k := vpR.nameIx[prefix]
	if k == 1 && strings.HasPrefix(prefix, "in_") {
		return prefix
	}
	return fmt.Sprintf("%s_%d", prefix, k)
}

func vpLookup(prefix string) (string, bool) {
	vpR.mu.Lock()
	defer vpR.mu.Unlock()
	n := vpInputName(prefix)
	v, ok := vpR.in.Inputs[n]
	return v, ok
}

func vpInt64(name string) int64 {
	v, ok := vpLookup("in_" + name)
	if !ok {
		return 0
	}
	x, err := strconv.ParseInt(v, 10, 64)
	if err != nil {
		f, _ := strconv.ParseFloat(v, 64)
		return int64(f)
	}
	return x
}
func vpInt(name string) int { return int(vpInt64(name)) }
func vpBool(name string) bool {
	v, _ := vpLookup("in_" + name)
	return v == "true"
}
func vpUnescape(s string) string {
	if len(s) >= 2 && s[0] == '"' && s[len(s)-1] == '"' {
		s = s[1 : len(s)-1]
	}
	s = strings.ReplaceAll(s, `""`, `"`)
	re := regexp.MustCompile(`\\u\{([0-9a-fA-F]+)\}|\\x([0-9a-fA-F]{2})`)
	return re.ReplaceAllStringFunc(s, func(m string) string {
		h := strings.Trim(m, `\u{}x`)
		n, _ := strconv.ParseInt(h, 16, 32)
		return string(rune(n))
	})
}
func vpStr(name string) string {
	v, ok := vpLookup("in_" + name)
	if !ok {
		return ""
	}
	return vpUnescape(v)
}
func vpFloat(name string) float64 {
	v, _ := vpLookup("in_" + name)
	f, _ := strconv.ParseFloat(v, 64)
	return f
}
func vpRec(name string) []byte {
	vpR.mu.Lock()
	defer vpR.mu.Unlock()
	vpR.nameIx["rec:"+name]++
	if k := vpR.nameIx["rec:"+name]; k > 1 {
		name = fmt.Sprintf("%s_%d", name, k)
	}
	if txt, ok := vpR.in.Records["rec_"+name]; ok {
		// the executor's tokens are "uuid-k" (k-th token generated); substitute the real ones noted by the harness
		for k := len(vpR.tokens); k >= 1; k-- {
			txt = strings.ReplaceAll(txt, fmt.Sprintf("uuid-%d", k), vpR.tokens[k-1])
		}
		return []byte(txt)
	}
	return []byte(`{"id":"someone-else","token":"tok-x","priority":0}`)
}
func vpNoteToken(tok string) {
	vpR.mu.Lock()
	vpR.tokens = append(vpR.tokens, tok)
	vpR.mu.Unlock()
}

func vpRecMk(id, tok string, prio int) []byte {
	b, _ := json.Marshal(leadershipPayload{ID: id, Token: tok, Priority: prio})
	return b
}
func vpParse(r []byte) (leadershipPayload, error) {
	var p leadershipPayload
	err := json.Unmarshal(r, &p)
	return p, err
}
func vpRecID(r []byte) string   { p, _ := vpParse(r); return p.ID }
func vpRecTok(r []byte) string  { p, _ := vpParse(r); return p.Token }
func vpRecPrio(r []byte) int    { p, _ := vpParse(r); return p.Priority }
func vpRecParses(r []byte) bool { _, err := vpParse(r); return err == nil }
func vpRecEmpty(r []byte) bool  { return len(r) == 0 }
func vpSameBytes(a, b []byte) bool { return string(a) == string(b) }
func vpRecMapField(r []byte, f string) (bool, string) {
	m := map[string]interface{}{}
	if json.Unmarshal(r, &m) != nil {
		return false, ""
	}
	v, ok := m[f]
	if !ok {
		return false, ""
	}
	s, ok := v.(string)
	return ok, s
}
func vpRecMapID(r []byte) (bool, string)  { return vpRecMapField(r, "id") }
func vpRecMapTok(r []byte) (bool, string) { return vpRecMapField(r, "token") }

func vpChoose(name string, n int) int {
	vpR.mu.Lock()
	defer vpR.mu.Unlock()
	i := vpR.chooseIx[name]
	vpR.chooseIx[name]++
	l := vpR.chooses[name]
	if i < len(l) && l[i] < n {
		return l[i]
	}
	vpR.out.Notes = append(vpR.out.Notes, "choose beyond recorded sequence: "+name)
	return 0
}
func vpConcrete(name string, v int, lo, hi int) int { return v }
func vpAssume(b bool) {
	if !b {
		vpR.mu.Lock()
		vpR.out.Notes = append(vpR.out.Notes, "assumption false natively")
		vpR.mu.Unlock()
	}
}
func vpAssert(id string, b bool) {
	if !b {
		vpR.mu.Lock()
		vpR.out.Failed = append(vpR.out.Failed, id)
		vpR.mu.Unlock()
	}
}
func vpCover(id string) {
	if vpR.race {
		return
	}
	vpR.mu.Lock()
	vpR.out.Covers = append(vpR.out.Covers, id)
	vpR.mu.Unlock()
}
func vpAnd(a, b bool) bool     { return a && b }
func vpOr(a, b bool) bool      { return a || b }
func vpNot(a bool) bool        { return !a }
func vpImplies(a, b bool) bool { return !a || b }
func vpIte(c bool, a, b int64) int64 {
	if c {
		return a
	}
	return b
}

// vpYield: park until the replay driver releases this label (recorded resume order), or pass
// straight through in free-run mode.
func vpYield(label string) {
	if vpR.race {
		return
	}
	vpR.mu.Lock()
	if vpR.freeRun {
		vpR.mu.Unlock()
		return
	}
	ch := make(chan struct{})
	vpR.waiters[label] = append(vpR.waiters[label], ch)
	vpR.mu.Unlock()
	select {
	case vpR.arrived <- struct{}{}:
	default:
	}
	<-ch
}

// vpYieldLazy: natively the same baton; the goroutine stays parked (durably blocked, so the bubble's clock
// keeps running) until the recorded resume order reaches it, or maxWait elapses.
func vpYieldLazy(label string, maxWait time.Duration) {
	if vpR.race {
		time.Sleep(maxWait / 3)
		return
	}
	vpR.mu.Lock()
	if vpR.freeRun {
		vpR.mu.Unlock()
		time.Sleep(maxWait)
		return
	}
	ch := make(chan struct{})
	vpR.waiters[label] = append(vpR.waiters[label], ch)
	vpR.mu.Unlock()
	select {
	case vpR.arrived <- struct{}{}:
	default:
	}
	select {
	case <-ch:
	case <-time.After(maxWait):
	}
}

func vpYieldLazyOps(label string, maxWait time.Duration) { vpYieldLazy(label, maxWait) }

// vpReleaseNext releases one goroutine parked at label; false if none is parked there.
func vpReleaseNext(label string) bool {
	vpR.mu.Lock()
	defer vpR.mu.Unlock()
	q := vpR.waiters[label]
	if len(q) == 0 {
		return false
	}
	close(q[0])
	vpR.waiters[label] = q[1:]
	return true
}
func vpHasWaiter(label string) bool {
	vpR.mu.Lock()
	defer vpR.mu.Unlock()
	return len(vpR.waiters[label]) > 0
}

func vpFreeRun() {
	vpR.mu.Lock()
	vpR.freeRun = true
	for l, q := range vpR.waiters {
		for _, ch := range q {
			close(ch)
		}
		delete(vpR.waiters, l)
	}
	vpR.mu.Unlock()
}

func vpDelay(label string, lo, hi time.Duration) {
	d := lo
	if v, ok := vpLookup("d_" + label); ok {
		if x, err := strconv.ParseInt(v, 10, 64); err == nil {
			d = time.Duration(x)
		}
	} else if lo != hi {
		vpR.mu.Lock()
		vpR.out.Notes = append(vpR.out.Notes, "delay without model value: "+label)
		vpR.mu.Unlock()
	}
	if d > 0 {
		time.Sleep(d)
	}
}
func vpNow() int64 { return int64(time.Since(vpR.start)) }
func vpEvent(kind string, args ...any) {
	if vpR.race {
		return
	}
	var parts []string
	for _, a := range args {
		parts = append(parts, fmt.Sprint(a))
	}
	vpR.mu.Lock()
	vpR.out.Events = append(vpR.out.Events, fmt.Sprintf("%s(%s)@%d", kind, strings.Join(parts, ","), int64(time.Since(vpR.start))))
	vpR.mu.Unlock()
}
// vpSite: library functions on the calling goroutine's stack, outermost first (same shape as the executor's)
func vpSite() string {
	pcs := make([]uintptr, 64)
	n := runtime.Callers(2, pcs)
	frames := runtime.CallersFrames(pcs[:n])
	var names []string
	for {
		fr, more := frames.Next()
		fn := fr.Function
		if i := strings.LastIndex(fn, "/leader."); i >= 0 {
			fn = fn[i+len("/leader."):]
			if strings.HasPrefix(fn, "(*kvElection).") || strings.HasPrefix(fn, "(*disconnectHandler).") || strings.HasPrefix(fn, "(*natsConnectionMonitor).") {
				fn = fn[strings.Index(fn, ").")+2:]
				if j := strings.Index(fn, ".func"); j >= 0 {
					fn = fn[:j] + "$"
				}
				if j := strings.Index(fn, ".gowrap"); j >= 0 {
					fn = fn[:j] + "$"
				}
				if len(names) == 0 || names[len(names)-1] != fn {
					names = append(names, fn)
				}
			}
		}
		if !more {
			break
		}
	}
	for i, j := 0, len(names)-1; i < j; i, j = i+1, j-1 {
		names[i], names[j] = names[j], names[i]
	}
	return strings.Join(names, ">")
}
func vpEndPath(why string) {
	vpR.mu.Lock()
	vpR.out.Notes = append(vpR.out.Notes, "budget end: "+why)
	vpR.mu.Unlock()
	runtime.Goexit()
}
func vpBlockForever() {
	<-vpR.kill
	runtime.Goexit()
}
func vpQuiesce()      { vpQuiesceHook() }

var vpQuiesceHook = func() { time.Sleep(0) }

func vpLibGoroutines() []string {
	buf := make([]byte, 1<<20)
	n := runtime.Stack(buf, true)
	var res []string
	for _, g := range strings.Split(string(buf[:n]), "\n\n") {
		if !strings.Contains(g, "NATS-Leader-Election/leader.(*") {
			continue
		}
		lib := false
		hang := false
		var top string
		for _, ln := range strings.Split(g, "\n") {
			if strings.Contains(ln, "leader.vpBlockForever") {
				hang = true
			}
			if i := strings.Index(ln, "NATS-Leader-Election/leader."); i >= 0 && !strings.HasPrefix(ln, "\t") {
				fn := ln[i+len("NATS-Leader-Election/leader."):]
				if strings.HasPrefix(fn, "(*kvElection)") || strings.HasPrefix(fn, "(*disconnectHandler)") || strings.HasPrefix(fn, "(*natsConnectionMonitor)") || strings.HasPrefix(fn, "(*natsWatcherAdapter)") {
					if !lib {
						top = fn
					}
					lib = true
				}
			}
		}
		if lib && !hang && !strings.Contains(g, "vpLibGoroutines") {
			res = append(res, top)
		}
	}
	return res
}
func vpThreadsAlive() int         { return len(vpLibGoroutines()) }
func vpThreadsAliveDesc() string  { return strings.Join(vpLibGoroutines(), ";") }
func vpDeadlocked() string        { return "" }
func vpSetOpt(name string, v int) {}
func vpRaces() int                { return 0 }
func vpConcreteStr(s string) (string, bool) { return s, true }

func vpWriteOutcome(path string, outs []vpOutcome) {
	b, _ := json.MarshalIndent(outs, "", " ")
	os.WriteFile(path, b, 0o644)
}
