//go:build verif

package leader

import (
	"time"

	"go.uber.org/zap"
)

var vpOtherPrio int // priority stored in the foreign record that vpFollowingInstance starts next to

type vpFollowerScn struct {
	st    *vpStore
	kv    *vpKV
	e     *kvElection
	cb    *vpCallbacks
	m     *vpMetrics
	H     time.Duration
	edges int // leadership true->false edges observed at the flag itself
	wasL  bool
}

// vpFollowingInstance: one real election started next to a live foreign record (it becomes a follower
// with its watcher, periodic check and first acquisition round running).
func vpFollowingInstance(H time.Duration, mod func(cfg *ElectionConfig)) *vpFollowerScn {
	s := &vpFollowerScn{H: H}
	s.st = vpNewStore("g", 0)
	s.st.watchStopYield = vpC06StopYield
	s.st.write("env:other", "create", vpRecMk("other", "tok-other", vpOtherPrio), false, 0)
	s.kv = vpHandle(s.st, "a")
	cfg := vpBaseConfig("a", H, 3*H)
	cfg.ValidationInterval = time.Hour
	s.m = &vpMetrics{}
	s.m.onFlag = func(v float64) {
		if s.wasL && v == 0 {
			s.edges++
			vpEvent("flag-down", vpSite())
		}
		s.wasL = v == 1
	}
	cfg.Metrics = s.m
	if mod != nil {
		mod(&cfg)
	}
	s.e = vpMustNew(&vpProvider{s.kv}, cfg)
	s.cb = &vpCallbacks{}
	s.cb.install(s.e)
	_ = s.e.Start(vpRootCtx())
	return s
}

// vpH_C07_T_leftover: fault-free; the foreign owner shuts down (deletes its record) at a symbolic instant
// while the follower's first acquisition round may still be retrying; the instance that becomes leader
// must stay leader with the same token for the whole horizon (>= 2 heartbeats).
func vpH_C07_T_leftover() { vpC07Leftover(true) }

// takeover-enabled instance next to an owner it cannot preempt, store operations taking 30ms: the operations of
// its concurrent acquisition rounds overlap in time
func vpH_C07_T_leftover_takeover() {
	vpC07Takeover = true
	vpC07Leftover(true)
}

var vpC07Takeover bool

// the same with every random jitter/backoff draw symbolic (thorough tier)
func vpH_C07_T_leftover_symrand() { vpC07Leftover(false) }

func vpC07Leftover(fixedRand bool) {
	H := time.Second
	if fixedRand {
		vpSetOpt("rand-fixed", 1) // rand.Float64() = 0.5: jitter 55ms, backoffs 50/100/200ms exactly
	}
	takeover := vpC07Takeover
	vpC07Takeover = false
	vpOtherPrio = 0
	if takeover {
		vpOtherPrio = 9 // the owner cannot be preempted by the instance (priority 5): it has to wait for the vacancy
	}
	s := vpFollowingInstance(H, func(cfg *ElectionConfig) {
		if takeover {
			cfg.Priority = 5
			cfg.AllowPriorityTakeover = true
		}
	})
	vpOtherPrio = 0
	if takeover {
		// store operations take 30ms, so that operations of concurrent acquisition rounds overlap in time
		s.kv.lat = 30 * time.Millisecond
		s.kv.latMin = s.kv.lat
	}
	go func() {
		vpDelay("vacate", 0, 600*time.Millisecond)
		if s.st.live() && s.st.writer == "env:other" {
			s.st.write("env:other", "delete", nil, true, 0)
			vpEvent("vacated")
		}
	}()
	time.Sleep(1300 * time.Millisecond)
	vpQuiesce()
	if s.cb.promotes == 0 {
		vpEndPath("not-elected-yet")
	}
	tok := s.cb.lastTok
	time.Sleep(2*H + H/2)
	vpQuiesce()
	vpCover("C07.leftover")
	vpAssert("C07.no-spurious-edge", s.edges == 0 && s.e.IsLeader())
	vpAssert("C07.no-demote-callback", s.cb.demotes == 0)
	vpAssert("C07.token-stable", s.e.Token() == tok && s.cb.promotes == 1)
	vpAssert("C08.promote-once-per-term", s.cb.promotes == 1 && s.cb.demotes == 0)
	vpAssert("C07.owner-stable", s.st.live() && vpRecID(s.st.val) == "a" && vpRecTok(s.st.val) == tok)
	vpAssert("C02.claim-backed", vpClaimBacked(s.e, s.st, "a"))
	vpAuditLog(s.st, "a", false, 0, false)
}

// vpH_C07_T_stale_events: a settled leader (elected through the follower path, so its watcher runs)
// receives late / duplicated / stale watch notifications: an old event naming the previous owner, a
// duplicate of its own creation event, an old deletion marker.
func vpH_C07_T_stale_events() {
	H := time.Second
	vpSetOpt("rand-fixed", 1)
	s := vpFollowingInstance(H, nil)
	s.st.noEvents = false
	time.Sleep(400 * time.Millisecond) // first round is over (jitter + 3 backoffs may still run: see leftover)
	oldRev := s.st.lastSeq
	s.st.write("env:other", "delete", nil, true, 0)
	time.Sleep(3 * H)
	vpQuiesce()
	if !s.e.IsLeader() || s.edges > 0 {
		vpEndPath("not-settled") // disturbances before the stale event are vpH_C07_T_leftover's subject
	}
	tok := s.e.Token()
	kind := vpChoose("stale", 4)
	w := s.st.watchers[len(s.st.watchers)-1]
	switch kind {
	case 3:
		// late notification about an OLDER version of its own record (its creation), after later refreshes
		for _, m := range s.st.log {
			if m.ok && m.by == "a" && m.op == "create" {
				w.push(&vpEntry{k: "g", v: m.newVal, rev: m.newSeq})
			}
		}
	case 0:
		w.push(&vpEntry{k: "g", v: vpRecMk("other", "tok-other", 0), rev: oldRev}) // late event of the previous owner
	case 1:
		w.push(&vpEntry{k: "g", v: s.st.val, rev: s.st.lastSeq}) // duplicate of its own latest write
	case 2:
		w.push(&vpEntry{k: "g", v: nil, rev: oldRev + 1}) // late deletion marker of the previous owner's shutdown
	}
	time.Sleep(time.Millisecond) // the event has been handled; the next heartbeat has not happened yet
	vpQuiesce()
	if s.e.IsLeader() && s.st.live() && s.st.writer == "a" {
		vpAssert("C18.leader-snapshot:revision", s.e.Status().Revision == s.st.lastSeq)
	}
	time.Sleep(2*H + H/2)
	vpQuiesce()
	vpCover("C07.stale")
	vpAssert("C07.no-spurious-edge", s.edges == 0 && s.e.IsLeader())
	vpAssert("C07.no-demote-callback", s.cb.demotes == 0)
	vpAssert("C07.token-stable", s.e.Token() == tok)
	vpAssert("C07.owner-stable", s.st.live() && vpRecID(s.st.val) == "a" && vpRecTok(s.st.val) == tok)
}

// vpH_C07_T_validation: fault-free leader whose periodic validation runs next to its heartbeats (the two tickers
// coincide), every store operation with explorer-ordered legs and a symbolic latency below H/2: never demoted.
func vpH_C07_T_validation() {
	tm := vpTimings[0]
	s := vpLeadingInstance(tm, 0, func(cfg *ElectionConfig) { cfg.ValidationInterval = tm.H })
	s.st.ttl = 0
	s.kv.ackYield = true
	s.kv.lat = tm.H/2 - 1
	s.kv.latResp = tm.H/2 - 1
	s.kv.opLeft = 8
	tok := s.e.Token()
	time.Sleep(2*tm.H + tm.H/2 + tm.H)
	vpQuiesce()
	vpCover("C07.validation")
	vpAssert("C07.no-spurious-edge", s.e.IsLeader() && s.cb.demotes == 0)
	vpAssert("C07.token-stable", s.e.Token() == tok)
}

// vpH_C07_T_stale_read: fault-free, but the answer to a read takes 150ms (well below H/2): the follower's
// periodic check reads the old owner's record, the owner leaves at a symbolic instant, the follower wins the
// vacancy, and only then the answer to that read is processed. The new leader must stay leader.
func vpH_C07_T_stale_read() {
	H := time.Second
	vpSetOpt("rand-fixed", 1)
	s := vpFollowingInstance(H, nil)
	s.kv.getRespLat = 150 * time.Millisecond
	go func() {
		vpDelay("vacate", 450*time.Millisecond, 700*time.Millisecond)
		if s.st.live() && s.st.writer == "env:other" {
			s.st.write("env:other", "delete", nil, true, 0)
			vpEvent("vacated")
		}
	}()
	time.Sleep(1500 * time.Millisecond)
	vpQuiesce()
	if s.cb.promotes == 0 {
		vpEndPath("not-elected-yet")
	}
	tok := s.cb.lastTok
	time.Sleep(2*H + H/2)
	vpQuiesce()
	vpCover("C07.stale-read")
	vpAssert("C07.no-spurious-edge", s.edges == 0 && s.e.IsLeader())
	vpAssert("C07.no-demote-callback", s.cb.demotes == 0)
	vpAssert("C07.token-stable", s.e.Token() == tok && s.cb.promotes == 1)
	vpAssert("C02.claim-backed", vpClaimBacked(s.e, s.st, "a"))
	vpAssert("C18.leader-snapshot", s.e.Status().LeaderID == "a" && s.e.Status().Token == tok)
	vpAuditLog(s.st, "a", false, 0, false)
}

// vpH_C07_T_stale_read_changed: fault-free, the answer to a read takes 150ms (well below H/2). The first owner
// leaves at 350ms and a third instance takes the record at once (the follower's acquisition round started by the
// vacancy keeps retrying with its usual back-off); at 450ms the record silently moves on to a fourth instance,
// so the follower's periodic check at 500ms reads about a change of leader. That owner leaves at a symbolic
// instant, the still-running round wins the vacancy, and only then is the answer to the read processed (the
// watch loop itself is busy with that read). The new leader must stay leader, with its own token and identity
// in every accessor.
func vpH_C07_T_stale_read_changed() {
	H := time.Second
	vpSetOpt("rand-fixed", 1)
	s := vpFollowingInstance(H, nil)
	s.kv.getRespLat = 150 * time.Millisecond
	go func() {
		time.Sleep(350 * time.Millisecond)
		s.st.write("env:other", "delete", nil, true, 0)
		s.st.write("env:third", "create", vpRecMk("third", "tok-third", 0), false, 0)
		time.Sleep(100 * time.Millisecond)
		s.st.noEvents = true
		s.st.write("env:fourth", "update", vpRecMk("fourth", "tok-fourth", 0), false, s.st.lastSeq)
		s.st.noEvents = false
		vpDelay("vacate", 0, 250*time.Millisecond)
		if s.st.live() && s.st.writer == "env:fourth" {
			s.st.write("env:fourth", "delete", nil, true, 0)
			vpEvent("vacated")
		}
	}()
	time.Sleep(1500 * time.Millisecond)
	vpQuiesce()
	if s.cb.promotes == 0 {
		vpEndPath("not-elected-yet")
	}
	tok := s.cb.lastTok
	vpAssert("C02.claim-backed", vpClaimBacked(s.e, s.st, "a"))
	time.Sleep(2*H + H/2)
	vpQuiesce()
	vpCover("C07.stale-read-changed")
	vpAssert("C07.no-spurious-edge", s.edges == 0 && s.e.IsLeader())
	vpAssert("C07.no-demote-callback", s.cb.demotes == 0)
	vpAssert("C07.token-stable", s.e.Token() == tok && s.cb.promotes == 1)
	vpAssert("C02.claim-backed", vpClaimBacked(s.e, s.st, "a"))
	vpAssert("C18.leader-snapshot", s.e.Status().LeaderID == "a" && s.e.Status().Token == tok)
	vpAuditLog(s.st, "a", false, 0, false)
}

// vpH_C07_T_validation_slow: fault-free leader with a long heartbeat interval (H = 10 s or 20 s, TTL 3H) and a
// store that answers every request after 3 s, 6 s or just under H/2: its periodic validation (default
// interval) must not mistake the slow answers for a lost record — never demoted, same token.
func vpH_C07_T_validation_slow() {
	tm := []vpTiming{{10 * time.Second, 30 * time.Second}, {20 * time.Second, 60 * time.Second}}[vpChoose("timing", 2)]
	s := vpLeadingInstance(tm, 0, func(cfg *ElectionConfig) { cfg.ValidationInterval = 0 })
	s.st.ttl = 0
	s.kv.lat = []time.Duration{3 * time.Second, 6 * time.Second, tm.H/2 - 1}[vpChoose("latency", 3)]
	if s.kv.lat >= tm.H/2 {
		vpEndPath("latency-not-below-half-interval")
	}
	s.kv.latMin = s.kv.lat
	s.kv.opLeft = 12
	tok := s.e.Token()
	time.Sleep(2*tm.H + tm.H/2)
	vpQuiesce()
	vpCover("C07.validation-slow")
	vpAssert("C07.no-spurious-edge", s.e.IsLeader() && s.cb.demotes == 0)
	vpAssert("C07.token-stable", s.e.Token() == tok)
}

// vpH_C07_T_mixed_priority: mixed configuration — the leader has priority 10 with takeover disabled, another
// instance (priority 5, takeover enabled) starts at a symbolic instant and behaves by the rules: it reads the
// record and replaces it only if its own priority is strictly greater than the one stored there. The leader's
// record must never give it that opportunity: never disturbed.
func vpH_C07_T_mixed_priority() {
	tm := vpTimings[0]
	s := vpLeadingInstance(tm, 0, func(cfg *ElectionConfig) { cfg.Priority = 10 })
	s.st.ttl = 0
	s.kv.opLeft = 40
	tok := s.e.Token()
	go func() {
		vpDelay("other-starts", 0, 2*tm.H)
		if s.st.live() && vpRecParses(s.st.val) && 5 > vpRecPrio(s.st.val) {
			s.st.write("env:b", "update", vpRecMk("b", "tok-b", 5), false, s.st.lastSeq)
			vpEvent("b-took-over")
		}
	}()
	time.Sleep(3*tm.H + tm.H/2)
	vpQuiesce()
	vpCover("C07.mixed-priority")
	vpAssert("C07.no-spurious-edge", s.e.IsLeader() && s.cb.demotes == 0)
	vpAssert("C07.owner-stable", s.st.live() && vpRecID(s.st.val) == "a" && vpRecTok(s.st.val) == tok)
}

// logger that takes time on chosen log lines (synchronous log sinks do)
type vpSlowLogger struct {
	at  map[string]bool
	max time.Duration
}

func (l *vpSlowLogger) hit(msg string) {
	if l.at[msg] {
		vpDelay("log."+msg, 0, l.max)
	}
}
func (l *vpSlowLogger) Debug(msg string, fields ...zap.Field) { l.hit(msg) }
func (l *vpSlowLogger) Info(msg string, fields ...zap.Field)  { l.hit(msg) }
func (l *vpSlowLogger) Warn(msg string, fields ...zap.Field)  { l.hit(msg) }
func (l *vpSlowLogger) Error(msg string, fields ...zap.Field) { l.hit(msg) }
func (l *vpSlowLogger) Fatal(msg string, fields ...zap.Field) { l.hit(msg) }

// vpH_C07_T_slow_logger: the follower's log sink takes up to 200 ms on the "leader_changed" line (the watch
// goroutine is busy with it). The first owner leaves (an acquisition round starts), a third instance holds the
// record for a moment (that is the notification being logged) and leaves; the round wins the vacancy while the
// watch goroutine is still inside the log call. When it comes back it must not treat what it was told before
// as news about the record the instance now owns: the new leader stays leader.
func vpH_C07_T_slow_logger() {
	H := time.Second
	vpSetOpt("rand-fixed", 1)
	s := vpFollowingInstance(H, func(cfg *ElectionConfig) {
		cfg.Logger = &vpSlowLogger{at: map[string]bool{"leader_changed": true}, max: 200 * time.Millisecond}
	})
	time.Sleep(700 * time.Millisecond)
	vpQuiesce()
	s.st.write("env:other", "delete", nil, true, 0)
	s.st.write("env:third", "create", vpRecMk("third", "tok-third", 0), false, 0)
	time.Sleep(20 * time.Millisecond)
	s.st.write("env:third", "delete", nil, true, 0)
	time.Sleep(600 * time.Millisecond)
	vpQuiesce()
	if s.cb.promotes == 0 {
		vpEndPath("not-elected-yet")
	}
	tok := s.cb.lastTok
	time.Sleep(2*H + H/2)
	vpQuiesce()
	vpCover("C07.slow-logger")
	vpAssert("C07.no-spurious-edge", s.edges == 0 && s.e.IsLeader())
	vpAssert("C07.no-demote-callback", s.cb.demotes == 0)
	vpAssert("C07.token-stable", s.e.Token() == tok && s.cb.promotes == 1)
	vpAssert("C18.leader-snapshot", s.e.Status().LeaderID == "a")
}
