//go:build verif

package leader

import "time"

// vpH_C18_T_follower: a follower's LeaderID converges to the id in the live record, with watch events
// delivered or lost (periodic check only), across a change of owner.
func vpH_C18_T_follower() {
	H := time.Second
	vpSetOpt("rand-fixed", 1)
	lost := vpChoose("events-lost", 2) == 1
	s := vpFollowingInstance(H, nil) // record owned by "other"
	s.st.noEvents = lost
	time.Sleep(700 * time.Millisecond)
	vpQuiesce()
	vpAssert("C18.follower-leaderid", s.e.Status().LeaderID == "other" && !s.e.Status().IsLeader && s.e.Status().State == StateFollower)
	// ownership moves to a third instance (other left, third created)
	s.st.write("env:third", "update", vpRecMk("third", "tok-third", 0), false, s.st.lastSeq)
	time.Sleep(1200 * time.Millisecond)
	vpQuiesce()
	vpCover("C18.follower")
	vpAssert("C18.follower-leaderid", s.e.Status().LeaderID == "third")
	stt := s.e.Status()
	vpAssert("C18.flag-iff-state", stt.IsLeader == (stt.State == StateLeader))
	prev := StateCandidate
	for _, tr := range s.m.transitions {
		vpAssert("C18.chain", tr[0] == prev || tr[0] == StateCandidate)
		prev = tr[1]
	}
	_ = s.e.Stop()
	vpQuiesce()
	vpAssert("C18.stopped-after-stop", s.e.Status().State == StateStopped && !s.e.Status().IsLeader)
}
