//go:build verif

package leader

import "time"

// vpH_C18_T_follower: a follower's LeaderID converges to the id in the live record, with watch events
// delivered or lost (periodic check only), across a change of owner.
func vpH_C18_T_follower() {
	H := time.Second
	vpSetOpt("rand-fixed", 1)
	lost := vpChoose("events-lost", 2) == 1
	s := vpFollowingInstance(H, nil) // record owned by "other"
	s.st.noEvents = lost
	time.Sleep(700 * time.Millisecond)
	vpQuiesce()
	vpAssert("C18.follower-leaderid", s.e.Status().LeaderID == "other" && !s.e.Status().IsLeader && s.e.Status().State == StateFollower)
	// ownership moves to a third instance (other left, third created)
	s.st.write("env:third", "update", vpRecMk("third", "tok-third", 0), false, s.st.lastSeq)
	time.Sleep(1200 * time.Millisecond)
	vpQuiesce()
	vpCover("C18.follower")
	vpAssert("C18.follower-leaderid", s.e.Status().LeaderID == "third")
	stt := s.e.Status()
	vpAssert("C18.flag-iff-state", stt.IsLeader == (stt.State == StateLeader))
	prev := StateCandidate
	for _, tr := range s.m.transitions {
		vpAssert("C18.chain", tr[0] == prev || tr[0] == StateCandidate)
		prev = tr[1]
	}
	_ = s.e.Stop()
	vpQuiesce()
	vpAssert("C18.stopped-after-stop", s.e.Status().State == StateStopped && !s.e.Status().IsLeader)
}

// vpH_C18_T_watch_closed: the follower's watch subscription is closed by the server at a moment when the
// record has silently lapsed; the re-election round this triggers is either won, or lost to a third instance
// that keeps the record. Either way LeaderID must converge to the id in the live record (the follower must
// still have some means of observing the record afterwards).
func vpH_C18_T_watch_closed() {
	H := time.Second
	vpSetOpt("rand-fixed", 1)
	race := vpChoose("third-wins", 2) == 1
	s := vpFollowingInstance(H, nil)
	time.Sleep(700 * time.Millisecond)
	vpQuiesce()
	s.st.noEvents = true
	s.st.write("env:other", "delete", nil, true, 0)
	s.st.noEvents = false
	s.st.closeWatchers()
	if race {
		time.Sleep(5 * time.Millisecond) // inside the round's initial jitter (10..100 ms)
		s.st.write("env:third", "create", vpRecMk("third", "tok-third", 0), false, 0)
	}
	time.Sleep(4 * time.Second)
	vpQuiesce()
	vpCover("C18.watch-closed")
	if race {
		vpAssert("C18.follower-leaderid", s.e.Status().LeaderID == "third" && !s.e.Status().IsLeader)
		// ... and keeps following: the record moves on to a fourth instance
		s.st.write("env:fourth", "update", vpRecMk("fourth", "tok-fourth", 0), false, s.st.lastSeq)
		time.Sleep(1200 * time.Millisecond)
		vpQuiesce()
		vpAssert("C18.follower-leaderid", s.e.Status().LeaderID == "fourth")
	} else {
		vpAssert("C18.leader-leaderid", s.e.Status().IsLeader && s.e.Status().LeaderID == "a")
	}
	stt := s.e.Status()
	vpAssert("C18.flag-iff-state", stt.IsLeader == (stt.State == StateLeader))
}

// vpH_C18_T_exleader: an instance that followed, then led, is preempted without any watch notification
// reaching it: its heartbeat notices, and from then on it is a follower whose watch stream stays silent. Its
// LeaderID must still converge to the id in the live record (the periodic check is what is left).
func vpH_C18_T_exleader() {
	H := time.Second
	vpSetOpt("rand-fixed", 1)
	s := vpFollowingInstance(H, nil)
	time.Sleep(450 * time.Millisecond)
	s.st.write("env:other", "delete", nil, true, 0)
	time.Sleep(200 * time.Millisecond)
	vpQuiesce()
	if !s.e.IsLeader() {
		vpEndPath("not-elected")
	}
	vpAssert("C18.leader-leaderid", s.e.Status().LeaderID == "a")
	s.st.noEvents = true
	s.st.write("env:hi", "update", vpRecMk("hi", "tok-hi", 9), false, s.st.lastSeq)
	time.Sleep(2*H + H/2)
	vpQuiesce()
	vpCover("C18.exleader")
	vpAssert("C18.follower-leaderid", !s.e.Status().IsLeader && s.e.Status().LeaderID == "hi")
	stt := s.e.Status()
	vpAssert("C18.flag-iff-state", stt.IsLeader == (stt.State == StateLeader))
	_ = s.e.Stop()
}

// vpH_C18_T_stop_vs_demote: the leader's record has been replaced (unnoticed) and the application calls
// ValidateTokenOrDemote from one goroutine and Stop / StopWithContext from another; the demotion is placed by
// the explorer at every switch point of the running stop call (the Metrics calls inside its critical section
// are scheduling points). After both have returned the election is STOPPED, the snapshot is consistent and the
// recorded transitions form a chain.
func vpH_C18_T_stop_vs_demote() {
	tm := vpTimings[0]
	m := &vpMetrics{}
	s := vpLeadingInstance(tm, 0, func(cfg *ElectionConfig) { cfg.Metrics = m })
	s.st.ttl = 0
	s.kv.opLeft = 20
	m.yieldOn = true
	variant := vpChoose("variant", 2)
	s.st.noEvents = true
	s.st.write("env:other", "update", vpRecMk("other", "tok-other", 0), false, s.st.lastSeq)
	done := false
	go func() {
		vpYieldLazy("api.validate", tm.H/2)
		_ = s.e.ValidateTokenOrDemote(vpRootCtx())
		done = true
	}()
	time.Sleep(tm.H / 4)
	_ = vpDoStop(s.e, variant)
	time.Sleep(tm.H)
	vpQuiesce()
	vpCover("C18.stop-vs-demote")
	dl := vpDeadlocked()
	vpAssert("C18.no-deadlock", dl == "" && done)
	if dl != "" {
		return
	}
	stt := s.e.Status()
	vpAssert("C18.stopped-after-stop", stt.State == StateStopped && !stt.IsLeader)
	prev := StateCandidate
	for _, tr := range m.transitions {
		vpAssert("C18.chain", tr[0] == prev)
		prev = tr[1]
	}
}

// vpH_C18_T_follower_nowatch: the follower's Watch call fails (once; nothing re-subscribes), so it never
// receives a notification: its LeaderID must still converge to the id in the live record through the periodic
// check, and follow a change of owner.
func vpH_C18_T_follower_nowatch() {
	H := time.Second
	vpSetOpt("rand-fixed", 1)
	s := &vpFollowerScn{H: H}
	s.st = vpNewStore("g", 0)
	s.st.write("env:other", "create", vpRecMk("other", "tok-other", 0), false, 0)
	s.kv = vpHandle(s.st, "a")
	s.kv.watchFailLeft = 1
	cfg := vpBaseConfig("a", H, 3*H)
	cfg.ValidationInterval = time.Hour
	s.e = vpMustNew(&vpProvider{s.kv}, cfg)
	s.cb = &vpCallbacks{}
	s.cb.install(s.e)
	_ = s.e.Start(vpRootCtx())
	time.Sleep(1200 * time.Millisecond)
	vpQuiesce()
	vpCover("C18.follower-nowatch")
	vpAssert("C18.follower-leaderid", s.e.Status().LeaderID == "other" && !s.e.Status().IsLeader && s.e.Status().State == StateFollower)
	s.st.write("env:third", "update", vpRecMk("third", "tok-third", 0), false, s.st.lastSeq)
	time.Sleep(1200 * time.Millisecond)
	vpQuiesce()
	vpAssert("C18.follower-leaderid", s.e.Status().LeaderID == "third")
	_ = s.e.Stop()
}

// vpH_C18_T_slow_ondemote: the application's OnDemote callback takes 500 ms; the term is ended by a validation
// the application asks for (record taken by a later incarnation), the record is then vacated and the instance
// wins it again while that callback is still running. Afterwards the snapshot shows a leader with the token of
// its live record.
func vpH_C18_T_slow_ondemote() {
	H := time.Second
	vpSetOpt("rand-fixed", 1)
	s := vpTermInstance(H, true, false, nil)
	s.cb.onDemoteFn = func() { time.Sleep(500 * time.Millisecond) }
	s.st.noEvents = true
	s.st.write("env:a2", "update", vpRecMk("a", "tok-later", 0), false, s.st.lastSeq)
	s.st.noEvents = false
	go func() {
		_ = s.e.ValidateTokenOrDemote(vpRootCtx())
	}()
	time.Sleep(50 * time.Millisecond)
	s.st.write("env:a2", "delete", nil, true, 0)
	time.Sleep(H)
	vpQuiesce()
	vpCover("C18.slow-ondemote")
	stt := s.e.Status()
	if stt.IsLeader && s.st.live() && s.st.writer == "a" {
		vpAssert("C18.leader-snapshot", stt.LeaderID == "a" && stt.Token == vpRecTok(s.st.val) && stt.State == StateLeader)
	}
	vpAssert("C18.flag-iff-state", stt.IsLeader == (stt.State == StateLeader))
	_ = s.e.Stop()
}
