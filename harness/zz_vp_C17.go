//go:build verif

package leader

import (
	"context"
	"errors"
	"math"
	"time"
)

// vpH_C17_backoff: CalculateBackoff for every configuration and attempt number.
// float64 is modelled as Real with a relative rounding error per operation; math.Pow is
// uninterpreted (finite result in [1,MaxFloat64] for base>=1, exp>=0, or +Inf).
func vpH_C17_backoff() {
	init := time.Duration(vpInt64("init"))
	max := time.Duration(vpInt64("max"))
	mult := vpFloat("mult")
	jit := vpFloat("jitter")
	n := vpInt("attempt")
	const hundredDays = 100 * 24 * time.Hour // below 2^53 ns: the int64 -> float64 conversions are exact
	vpAssume(vpAnd(init >= 0, init <= hundredDays))
	vpAssume(vpAnd(max >= 0, max <= hundredDays))
	vpAssume(vpAnd(mult >= 1, mult <= 1000000))
	vpAssume(vpAnd(jit >= 0, jit <= 1))
	vpAssume(n >= 0)
	cfg := BackoffConfig{InitialBackoff: init, MaxBackoff: max, BackoffMultiplier: mult, Jitter: jit}
	vpSetOpt("float-rounding", 1)
	got := CalculateBackoff(cfg, n)
	// the capped backoff recomputed with the same float operations (the rounding model is a
	// deterministic function of the exact term, so these are the implementation's own values)
	p := math.Pow(mult, float64(n))
	b := float64(init) * p
	if b > float64(max) {
		b = float64(max)
	}
	vpSetOpt("float-rounding", 0)
	vpCover("C17.backoff")
	vpAssert("C17.backoff-nonneg", got >= 0)
	if math.IsNaN(b) {
		// 0 * (+Inf): the mathematical value init*mult^n is 0
		vpAssert("C17.backoff-band", got == 0)
		return
	}
	g := float64(got)
	eps := 1.0 / 9007199254740992.0
	vpAssert("C17.backoff-band", vpAnd(g >= b*(1-jit)-64*eps*b-1, g <= b*(1+jit)+64*eps*b+1))
	// fidelity of the float value b to the exact B = min(max, init*mult^n)
	if math.IsInf(p, 1) {
		vpAssert("C17.backoff-fidelity", vpAnd(b >= float64(max)*(1-4*eps), b <= float64(max)*(1+4*eps)))
		return
	}
	B := float64(max)
	if x := float64(init) * p; x < B {
		B = x
	}
	vpAssert("C17.backoff-fidelity", vpAnd(b >= B*(1-8*eps), b <= B*(1+8*eps)))
}

// vpH_C17_backoff_conc: the same contract with concrete multipliers and attempt numbers (math.Pow is then
// evaluated exactly), InitialBackoff, MaxBackoff and Jitter symbolic: counterexamples replay exactly.
func vpH_C17_backoff_conc() {
	init := time.Duration(vpInt64("init"))
	max := time.Duration(vpInt64("max"))
	jit := vpFloat("jitter")
	vpAssume(vpAnd(init >= 0, init <= vpYear))
	vpAssume(vpAnd(max >= 0, max <= vpYear))
	vpAssume(vpAnd(jit >= 0, jit <= 1))
	mults := []float64{1.1, 2}
	atts := []int{0, 1, 10, 33, 1100}
	mult := mults[vpChoose("mult", len(mults))]
	n := atts[vpChoose("attempt", len(atts))]
	cfg := BackoffConfig{InitialBackoff: init, MaxBackoff: max, BackoffMultiplier: mult, Jitter: jit}
	got := CalculateBackoff(cfg, n) // exact real arithmetic here; rounding is covered by vpH_C17_backoff
	p := math.Pow(mult, float64(n))
	b := float64(init) * p
	if b > float64(max) {
		b = float64(max)
	}
	vpCover("C17.backoff-conc")
	vpAssert("C17.backoff-nonneg", got >= 0)
	if math.IsNaN(b) {
		vpAssert("C17.backoff-band", got == 0)
		return
	}
	g := float64(got)
	eps := 1.0 / 9007199254740992.0
	vpAssert("C17.backoff-band", vpAnd(g >= b*(1-jit)-64*eps*b-1, g <= b*(1+jit)+64*eps*b+1))
	B := float64(max)
	if !math.IsInf(p, 1) {
		if x := float64(init) * p; x < B {
			B = x
		}
	}
	vpAssert("C17.backoff-fidelity", vpAnd(b >= B*(1-8*eps), b <= B*(1+8*eps)))
}

type vpRetryScript struct {
	calls    int
	times    []int64
	outcomes []int
	done     bool // an invocation returned nil / permanent, or cancellation was observed
	after    int  // invocations after done
}

var vpErrPerm = errors.New("permission denied by policy")
var vpErrTrans = errors.New("temporary glitch")

// vpH_C17_T_retry: RetryWithBackoff with every outcome sequence, MaxAttempts 0..4, optional cancellation.
func vpH_C17_T_retry() {
	maxAtt := vpChoose("maxAttempts", 5)
	cancelMode := vpChoose("cancel", 3)
	bc := DefaultBackoffConfig()
	if cancelMode == 2 {
		bc.InitialBackoff = 0 // no wait at all: the cancellation made inside the operation must still be seen
	} else {
		// configurations whose computed backoff is zero: the attempt bound holds for them as well
		switch vpChoose("zero-backoff", 3) {
		case 1:
			bc.InitialBackoff = 0
		case 2:
			bc = BackoffConfig{}
		}
	}
	ctx, cancel := context.WithCancel(vpRootCtx())
	defer cancel()
	sc := &vpRetryScript{}
	cancelledAt := int64(-1)
	if cancelMode == 1 {
		go func() {
			vpDelay("cancel", 0, 2*time.Second)
			cancelledAt = vpNow()
			cancel()
		}()
	}
	err := RetryWithBackoff(ctx, RetryConfig{MaxAttempts: maxAtt, BackoffConfig: bc}, func() error {
		if sc.done {
			sc.after++
		}
		sc.calls++
		sc.times = append(sc.times, vpNow())
		if cancelMode == 2 && sc.calls == 1 {
			cancelledAt = vpNow()
			cancel()
		}
		if sc.calls > 6 {
			vpEndPath("retry-invocations") // MaxAttempts==0: unbounded by design; bounded here by 6 invocations
		}
		o := vpChoose("outcome", 3)
		sc.outcomes = append(sc.outcomes, o)
		switch o {
		case 0:
			sc.done = true
			return nil
		case 1:
			sc.done = true
			return vpErrPerm
		}
		return vpErrTrans
	})
	vpCover("C17.retry")
	vpAssert("C17.retry-stops", sc.after == 0)
	if maxAtt > 0 {
		vpAssert("C17.retry-count", sc.calls <= maxAtt)
	}
	last := -1
	if len(sc.outcomes) > 0 {
		last = sc.outcomes[len(sc.outcomes)-1]
	}
	if err == nil {
		vpAssert("C17.retry-result", last == 0)
	}
	if last == 0 {
		vpAssert("C17.retry-result", err == nil)
	}
	if last == 1 {
		vpAssert("C17.retry-result", err == vpErrPerm)
	}
	// exhaustion only after exactly MaxAttempts transient failures
	if err != nil && last == 2 && cancelledAt < 0 {
		vpAssert("C17.retry-count", maxAtt > 0 && sc.calls == maxAtt)
	}
	// no invocation starts after the cancellation instant (cancellation is checked before each call)
	if cancelledAt >= 0 {
		for k, t := range sc.times {
			vpAssert("C17.retry-stops", t <= cancelledAt && !(cancelMode == 2 && k > 0))
		}
	}
	// waits: gap k -> k+1 lies in the jitter band of the backoff for attempt index k
	for k := 0; k+1 < len(sc.times); k++ {
		b := float64(bc.InitialBackoff) * math.Pow(bc.BackoffMultiplier, float64(k))
		if b > float64(bc.MaxBackoff) {
			b = float64(bc.MaxBackoff)
		}
		gap := float64(sc.times[k+1] - sc.times[k])
		vpAssert("C17.retry-waits", vpAnd(gap >= b*(1-bc.Jitter)-1, gap <= b*(1+bc.Jitter)+1))
	}
}

// vpH_C17_breaker_step: one Call from an arbitrary reachable breaker state (inductive step).
// Reachable states: Closed with 0 <= failures < threshold, Open with failures >= threshold and
// lastFailureTime in the past (HalfOpen only exists inside Call).
func vpH_C17_breaker_step() {
	thr := vpInt("threshold")
	cool := time.Duration(vpInt64("cooldown"))
	fails := vpInt("failures")
	ago := time.Duration(vpInt64("sinceLastFailure"))
	open := vpChoose("open", 2) == 1
	vpAssume(vpAnd(thr >= 1, thr <= 1000000))
	vpAssume(vpAnd(cool >= 0, cool <= vpYear))
	vpAssume(vpAnd(ago >= 0, ago <= vpYear))
	cb := NewCircuitBreaker(thr, cool)
	cb.failures = fails
	cb.lastFailureTime = time.Now().Add(-ago)
	if open {
		vpAssume(vpAnd(fails >= thr, fails <= 2000000))
		cb.state = CircuitStateOpen
	} else {
		vpAssume(vpAnd(fails >= 0, fails < thr))
	}
	invoked := 0
	outcome := vpChoose("outcome", 2)
	err := cb.Call(func() error {
		invoked++
		vpDelay("op", 0, time.Hour) // the guarded operation takes time
		if outcome == 1 {
			return vpErrTrans
		}
		return nil
	})
	vpCover("C17.breaker-step")
	if open {
		if ago < cool {
			vpAssert("C17.breaker-blocks-in-cooldown", invoked == 0 && err != nil && cb.state == CircuitStateOpen)
			return
		}
		vpAssert("C17.breaker-probes-after-cooldown", invoked == 1)
	} else {
		vpAssert("C17.breaker-closed-invokes", invoked == 1)
	}
	if outcome == 0 {
		vpAssert("C17.breaker-closes", err == nil && cb.state == CircuitStateClosed && cb.failures == 0)
		return
	}
	vpAssert("C17.breaker-counts", err == vpErrTrans && cb.failures == fails+1)
	// the cooldown runs from the failure, i.e. from the completion of the failing call
	vpAssert("C17.breaker-cooldown-from-failure", cb.lastFailureTime.Equal(time.Now()))
	// opens exactly when the consecutive-failure count reaches the threshold
	if fails+1 >= thr {
		vpAssert("C17.breaker-opens-at-n", cb.state == CircuitStateOpen)
	} else {
		vpAssert("C17.breaker-opens-at-n", cb.state == CircuitStateClosed)
	}
}

// vpH_C17_T_breaker_seq: call sequences from NewCircuitBreaker, threshold 1..3, symbolic gaps.
func vpH_C17_T_breaker_seq() { vpC17BreakerSeq(3) }

// thorough: thresholds up to 5 (sequences of up to 12 calls)
func vpH_C17_T_breaker_seq5() { vpC17BreakerSeq(5) }

func vpC17BreakerSeq(maxThr int) {
	thr := 1 + vpChoose("threshold", maxThr)
	cool := time.Duration(vpInt64("cooldown"))
	vpAssume(vpAnd(cool >= time.Millisecond, cool <= time.Hour))
	cb := NewCircuitBreaker(thr, cool)
	consecutive := 0
	opened := false
	openedAt := int64(0)
	for i := 0; i < 2*thr+2; i++ {
		vpDelay("gap", 0, 2*time.Hour)
		invoked := false
		o := vpChoose("outcome", 2)
		wasBlocked := opened && vpNow()-openedAt < int64(cool)
		err := cb.Call(func() error {
			invoked = true
			vpDelay("op", 0, 30*time.Minute) // the guarded operation takes time
			if o == 1 {
				return vpErrTrans
			}
			return nil
		})
		if wasBlocked {
			vpAssert("C17.breaker-blocks-in-cooldown", !invoked && err != nil)
			continue
		}
		vpAssert("C17.breaker-invokes", invoked)
		if o == 0 {
			consecutive = 0
			opened = false
			vpAssert("C17.breaker-closes", err == nil && cb.state == CircuitStateClosed)
			continue
		}
		consecutive++
		if consecutive >= thr {
			opened = true
			openedAt = vpNow()
			vpAssert("C17.breaker-opens-at-n", cb.state == CircuitStateOpen)
		} else {
			vpAssert("C17.breaker-opens-at-n", cb.state == CircuitStateClosed)
		}
	}
	vpCover("C17.breaker-seq")
}

// vpH_C17_T_round: one acquisition round against a store that keeps refusing the Create:
// first attempt after a wait in [10ms,100ms), at most four attempts, waits = DefaultBackoffConfig backoff.
func vpH_C17_T_round() {
	H := time.Second
	st := vpNewStore("g", 0)
	st.watchMode = 1
	st.write("env:other", "create", vpRecMk("other", "tok-other", 0), false, 0)
	kv := vpHandle(st, "a")
	e := vpMustNew(&vpProvider{kv}, vpBaseConfig("a", H, 3*H))
	_ = e.Start(vpRootCtx())
	time.Sleep(H)
	vpQuiesce()
	base := len(st.issued)
	t0 := vpNow()
	if vpChoose("slow-store", 2) == 1 {
		kv.lat = 30 * time.Millisecond // the wait between attempts is the backoff, whatever the attempt itself took
		kv.latMin = kv.lat
	}
	e.attemptAcquireWithRetry(e.ctx)
	vpCover("C17.round")
	var times []int64
	for _, is := range st.issued[base:] {
		if is.op == "create" {
			times = append(times, is.at)
		}
	}
	vpAssert("C17.round-attempts", len(times) >= 1 && len(times) <= 4)
	if len(times) > 0 {
		vpAssert("C17.round-jitter", times[0]-t0 >= int64(10*time.Millisecond) && times[0]-t0 < int64(100*time.Millisecond))
	}
	bc := DefaultBackoffConfig()
	for k := 0; k+1 < len(times); k++ {
		b := float64(bc.InitialBackoff) * math.Pow(bc.BackoffMultiplier, float64(k))
		gap := float64(times[k+1]-times[k]) - float64(kv.lat) // from the end of one attempt to the start of the next
		vpAssert("C17.round-backoff", vpAnd(gap >= b*(1-bc.Jitter)-1, gap <= b*(1+bc.Jitter)+1))
	}
	vpAssert("C17.round-follower-after", !e.IsLeader())
	_ = e.Stop()
}

// vpH_C17_T_round_flapping_record: one acquisition round of a takeover-enabled candidate against a record that
// flaps: each refused Create is followed by the record's deletion, and the record is back (another owner of
// higher priority) right after the candidate's next read. The round still makes at most four attempts, each
// a full backoff after the previous one.
func vpH_C17_T_round_flapping_record() {
	H := time.Second
	st := vpNewStore("g", 0)
	st.watchMode = 1
	st.write("env:other", "create", vpRecMk("other", "tok-other", 9), false, 0)
	kv := vpHandle(st, "a")
	cfg := vpBaseConfig("a", H, 3*H)
	cfg.Priority = 5
	cfg.AllowPriorityTakeover = true
	e := vpMustNew(&vpProvider{kv}, cfg)
	_ = e.Start(vpRootCtx())
	time.Sleep(H)
	vpQuiesce()
	base := len(st.issued)
	kv.opLeft = 60
	kv.afterApply = func(op string) {
		switch {
		case op == "create" && st.live() && st.writer == "env:other":
			st.noEvents = true
			st.write("env:other", "delete", nil, true, 0)
		case op == "get" && !st.live():
			st.noEvents = true
			st.write("env:other", "create", vpRecMk("other", "tok-other", 9), false, 0)
		}
	}
	e.attemptAcquireWithRetry(e.ctx)
	vpCover("C17.round-flapping-record")
	var times []int64
	for _, is := range st.issued[base:] {
		if is.op == "create" {
			times = append(times, is.at)
		}
	}
	vpAssert("C17.round-attempts", len(times) >= 1 && len(times) <= 4)
	bc := DefaultBackoffConfig()
	for k := 0; k+1 < len(times); k++ {
		b := float64(bc.InitialBackoff) * math.Pow(bc.BackoffMultiplier, float64(k))
		gap := float64(times[k+1] - times[k])
		vpAssert("C17.round-backoff", gap >= b*(1-bc.Jitter)-1)
	}
	_ = e.Stop()
}
