//go:build verif

package leader

import "time"

// vpH_S00_T_smoke: engine smoke test (start, lead, three heartbeats, stop) — not a property check.
func vpH_S00_T_smoke() {
	H := time.Second
	st := vpNewStore("g", 3*H)
	kv := vpHandle(st, "a")
	e := vpMustNew(&vpProvider{kv}, vpBaseConfig("a", H, 3*H))
	cb := &vpCallbacks{}
	cb.install(e)
	err := e.Start(vpRootCtx())
	vpAssert("S00.start-ok", err == nil)
	time.Sleep(3*H + H/2)
	vpCover("S00.ran")
	vpAssert("S00.leader", e.IsLeader())
	vpAssert("S00.promoted-once", cb.promotes == 1)
	vpEvent("updates", len(st.log))
	_ = e.Stop()
	vpAssert("S00.stopped", !e.IsLeader())
	vpAssert("S00.demoted-once", cb.demotes == 1)
	vpQuiesce()
	vpAssert("S00.threads-end", vpThreadsAlive() == 0)
}
