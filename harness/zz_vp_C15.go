//go:build verif

package leader

import (
	"context"
	"errors"
	"fmt"
	"time"

	"github.com/nats-io/nats.go"
)

// error-value generator: leaves × wrappers, all message texts symbolic.

const vpC15Leaves = 17

func vpC15Leaf(k int) (error, string) {
	switch k {
	case 0:
		return context.Canceled, "ctx"
	case 1:
		return context.DeadlineExceeded, "ctx"
	case 2:
		return NewTimeoutError(vpStr("op"), time.Duration(vpInt64("to")), nil), "timeout"
	case 3:
		return &TimeoutError{Operation: vpStr("op"), Timeout: time.Duration(vpInt64("to")), Err: errors.New(vpStr("inner"))}, "timeout"
	case 4:
		return ErrInvalidConfig, "perm"
	case 5:
		return ErrPermissionDenied, "perm"
	case 6:
		return ErrBucketNotFound, "perm"
	case 7:
		return NewValidationError(vpStr("field"), nil, vpStr("reason")), "perm"
	case 8:
		return ErrNotLeader, "any"
	case 9:
		return ErrConnectionLost, "any"
	case 10:
		return errors.New(vpStr("text")), "any"
	case 11:
		return &TokenValidationError{LocalToken: vpStr("lt"), KvToken: vpStr("kt"), Reason: vpStr("reason")}, "any"
	case 12:
		return NewElectionError(vpStr("code"), vpStr("inst"), vpStr("reason"), nil), "any"
	// errors of the real NATS client (types and values of nats.go)
	case 13: // failed revision-checked update: server API error 10071
		return &nats.APIError{Code: 400, ErrorCode: nats.JSErrCodeStreamWrongLastSequence, Description: fmt.Sprintf("wrong last sequence: %d", vpInt64("seq"))}, "nats-conflict"
	case 14: // kv.Create on an existing key
		ae := &nats.APIError{Code: 400, ErrorCode: nats.JSErrCodeStreamWrongLastSequence, Description: fmt.Sprintf("wrong last sequence: %d", vpInt64("seq"))}
		return fmt.Errorf("%w: %s", ae, "key exists"), "nats-exists"
	case 15:
		return nats.ErrKeyNotFound, "nats-notfound"
	case 16:
		switch vpChoose("nats-transient", 3) {
		case 0:
			return nats.ErrTimeout, "nats-transient"
		case 1:
			return nats.ErrNoResponders, "nats-transient"
		}
		return nats.ErrConnectionClosed, "nats-transient"
	}
	return nil, ""
}

const vpC15Wraps = 6

func vpC15Wrap(e error, k int) error {
	switch k {
	case 0:
		return fmt.Errorf("%s: %w", vpStr("wtext"), e)
	case 1:
		return NewElectionError(vpStr("wcode"), vpStr("winst"), vpStr("wreason"), e)
	case 2:
		return &TokenValidationError{Reason: vpStr("wreason"), Err: e}
	case 4: // two %w verbs: Unwrap() []error
		return fmt.Errorf("%w: %w", errors.New(vpStr("wtext")), e)
	case 5:
		return errors.Join(errors.New(vpStr("wtext")), e)
	}
	return fmt.Errorf("failed to get KV bucket %s: %w", vpStr("wbucket"), e)
}

func vpC15Check(e error, class string, wrapped bool) {
	p := IsPermanentError(e)
	t := IsTransientError(e)
	vpAssert("C15.exclusive", !(p && t))
	vpAssert("C15.total", p || t)
	switch class {
	case "ctx":
		vpAssert("C15.ctx-transient", t && !p)
	case "timeout":
		if wrapped {
			vpAssert("C15.timeout-transient:wrapped", t && !p)
		} else {
			vpAssert("C15.timeout-transient", t && !p)
		}
	case "perm":
		vpAssert("C15.config-permanent", p && !t)
	case "nats-conflict":
		vpAssert("C15.nats-conflict-permanent", p && !t)
	case "nats-exists":
		vpAssert("C15.nats-exists-permanent", p && !t)
	case "nats-notfound":
		vpAssert("C15.nats-notfound-permanent", p && !t)
	case "nats-transient":
		if !wrapped {
			vpAssert("C15.nats-timeouts-transient", t && !p)
		}
	}
}

// depth 0: every leaf, all texts symbolic
func vpH_C15_leaves() {
	vpAssert("C15.nil-neither", !IsPermanentError(nil) && !IsTransientError(nil))
	e, class := vpC15Leaf(vpChoose("leaf", vpC15Leaves))
	vpCover("C15.leaf")
	vpC15Check(e, class, false)
}

// depth 1: every leaf under every wrapper, wrapper texts symbolic
func vpH_C15_wrapped1() {
	e, class := vpC15Leaf(vpChoose("leaf", vpC15Leaves))
	e = vpC15Wrap(e, vpChoose("wrap", vpC15Wraps))
	vpCover("C15.wrapped1")
	vpC15Check(e, class, true)
}

// depth 2
func vpH_C15_wrapped2() {
	e, class := vpC15Leaf(vpChoose("leaf", vpC15Leaves))
	e = vpC15Wrap(e, vpChoose("wrap", vpC15Wraps))
	e = vpC15Wrap(e, vpChoose("wrap", vpC15Wraps))
	vpCover("C15.wrapped2")
	vpC15Check(e, class, true)
}
