//go:build verif

package leader

import "time"

// vpH_C12_T_health: a leader with a scripted health checker; threshold N symbolic in {0(default 3),1,2,3,4},
// verdict of every tick chosen by the explorer; demotion by the health path exactly at the N-th consecutive
// unhealthy tick of the term, never earlier; OnDemote runs; the instance continues as follower.
func vpH_C12_T_health() { vpC12Health(5) }

// thorough: thresholds up to 7
func vpH_C12_T_health7() { vpC12Health(8) }

func vpC12Health(maxThr int) {
	n := vpChoose("threshold", maxThr)
	thr := n
	if thr == 0 {
		thr = 3
	}
	hc := &vpHealth{}
	tm := vpTiming{time.Second, 3 * time.Second}
	s := vpLeadingInstance(tm, 0, func(cfg *ElectionConfig) {
		cfg.HealthChecker = hc
		cfg.MaxConsecutiveFailures = n
	})
	s.st.ttl = 0 // unhealthy ticks skip the refresh; keep expiry out of this harness
	// one refresh (of a healthy tick) may fail transiently: the health count must still restart on that tick
	s.kv.faults = []int{vpFaultErr}
	s.kv.faultLeft = 1
	s.kv.faultOps = "update"
	ticks := thr + 2
	select {
	case <-s.demoted:
	case <-time.After(time.Duration(ticks)*tm.H + tm.H/2):
	}
	vpCover("C12.health")
	// independent oracle over the verdict log: first index i with verdicts[i-thr+1..i] all unhealthy
	run, at := 0, -1
	for i, v := range hc.verdicts {
		if v {
			run = 0
		} else {
			run++
			if run >= thr && at < 0 {
				at = i
			}
		}
	}
	if at >= 0 {
		vpAssert("C12.exactly-at-n", s.cb.demotes == 1 && !s.e.IsLeader() && len(hc.verdicts) == at+1)
		vpAssert("C12.follower-after", s.e.Status().State == StateFollower)
		// ... and can be re-elected: its record is removed (the health path does not refresh it any more),
		// the checker has recovered
		hc.forceHealthy = true
		s.kv.faultLeft = 0
		s.st.write("env:cleanup", "delete", nil, true, 0)
		time.Sleep(tm.H)
		vpQuiesce()
		vpAssert("C12.re-elected-after", s.e.IsLeader() && s.cb.promotes == 2)
		vpAssert("C06.filled-after-health-demotion", s.e.IsLeader())
	} else {
		vpAssert("C12.never-before-n", s.cb.demotes == 0 && s.e.IsLeader())
	}
	_ = s.e.Stop()
}

// vpH_C12_T_slow_checker: the checker may ignore its context and take 150 ms to answer (explorer's choice
// per tick, like the verdict): what counts is the verdict it returns — slow healthy answers never demote and
// restart the count, thresholds 1 and 2.
func vpH_C12_T_slow_checker() {
	thr := 1 + vpChoose("threshold", 2)
	hc := &vpHealth{maySlow: true, maxCalls: 3}
	// also a heartbeat interval shorter than the time a slow check takes (several ticks pass during one check)
	tm := []vpTiming{{time.Second, 3 * time.Second}, {40 * time.Millisecond, 120 * time.Millisecond}}[vpChoose("timing", 2)]
	s := vpLeadingInstance(tm, 0, func(cfg *ElectionConfig) {
		cfg.HealthChecker = hc
		cfg.MaxConsecutiveFailures = thr
	})
	s.st.ttl = 0
	select {
	case <-s.demoted:
	case <-time.After(time.Duration(thr+1)*(tm.H+150*time.Millisecond) + tm.H/2): // every check may take 150 ms
	}
	time.Sleep(200 * time.Millisecond) // a check in flight has answered
	vpQuiesce()
	vpCover("C12.slow-checker")
	run, at := 0, -1
	for i, v := range hc.verdicts {
		if v {
			run = 0
		} else {
			run++
			if run >= thr && at < 0 {
				at = i
			}
		}
	}
	if at >= 0 {
		vpAssert("C12.exactly-at-n", s.cb.demotes == 1 && !s.e.IsLeader() && len(hc.verdicts) == at+1)
	} else {
		vpAssert("C12.never-before-n", s.cb.demotes == 0 && s.e.IsLeader())
	}
	_ = s.e.Stop()
}

// vpH_C12_T_terms: two consecutive terms of one instance: the first term ends (Stop, record released)
// while k < N unhealthy results are pending; the instance is started again and leads a second term in
// which the count must start from zero.
func vpH_C12_T_terms() {
	thr := 2 + vpChoose("threshold", 2) // 2 or 3
	hc := &vpHealth{}
	tm := vpTiming{time.Second, 3 * time.Second}
	s := vpLeadingInstance(tm, 0, func(cfg *ElectionConfig) {
		cfg.HealthChecker = hc
		cfg.MaxConsecutiveFailures = thr
	})
	s.st.ttl = 0
	// term 1: thr-1 ticks
	time.Sleep(time.Duration(thr-1)*tm.H + tm.H/4)
	if !s.e.IsLeader() {
		vpEndPath("term1-ended-early")
	}
	_ = s.e.Stop()
	s.st.write("env:cleanup", "delete", nil, true, 0)
	for len(s.demoted) > 0 {
		<-s.demoted
	}
	_ = s.e.Start(vpRootCtx())
	vpQuiesce()
	if !s.e.IsLeader() {
		vpEndPath("not-reelected")
	}
	vpCover("C12.second-term")
	base := len(hc.verdicts)
	select {
	case <-s.demoted:
	case <-time.After(time.Duration(thr+1)*tm.H + tm.H/2):
	}
	// oracle restricted to the verdicts of the second term
	run, at := 0, -1
	for i := base; i < len(hc.verdicts); i++ {
		if hc.verdicts[i] {
			run = 0
		} else {
			run++
			if run >= thr && at < 0 {
				at = i
			}
		}
	}
	if at >= 0 {
		vpAssert("C12.exactly-at-n", !s.e.IsLeader() && len(hc.verdicts) == at+1)
	} else {
		vpAssert("C12.reset-on-term", s.e.IsLeader() && s.cb.demotes == 1)
	}
}

// vpH_C12_T_terms_inflight: as vpH_C12_T_terms, but a health check may still be in flight (the checker is a
// scheduling point) when the first term is ended from outside by Stop, placed by the explorer.
func vpH_C12_T_terms_inflight() {
	thr := 2
	hc := &vpHealth{yieldInCheck: true}
	tm := vpTiming{time.Second, 3 * time.Second}
	s := vpLeadingInstance(tm, 0, func(cfg *ElectionConfig) {
		cfg.HealthChecker = hc
		cfg.MaxConsecutiveFailures = thr
	})
	s.st.ttl = 0
	stopped := make(chan struct{}, 1)
	go func() {
		vpYieldLazyOps("api.stop", tm.H+tm.H/2)
		_ = s.e.Stop()
		stopped <- struct{}{}
	}()
	<-stopped
	time.Sleep(200 * time.Millisecond) // the check that was in flight has answered by now
	vpQuiesce()
	s.st.write("env:cleanup", "delete", nil, true, 0)
	for len(s.demoted) > 0 {
		<-s.demoted
	}
	d0 := s.cb.demotes
	_ = s.e.Start(vpRootCtx())
	vpQuiesce()
	if !s.e.IsLeader() {
		vpEndPath("not-reelected")
	}
	vpCover("C12.second-term-inflight")
	base := len(hc.verdicts)
	select {
	case <-s.demoted:
	case <-time.After(time.Duration(thr+1)*tm.H + tm.H/2):
	}
	run, at := 0, -1
	for i := base; i < len(hc.verdicts); i++ {
		if hc.verdicts[i] {
			run = 0
		} else {
			run++
			if run >= thr && at < 0 {
				at = i
			}
		}
	}
	if at >= 0 {
		vpAssert("C12.exactly-at-n", !s.e.IsLeader() && len(hc.verdicts) == at+1)
	} else {
		vpAssert("C12.reset-on-term", s.e.IsLeader() && s.cb.demotes == d0)
	}
}

// vpH_C12_T_quick_reelection: the leader (threshold 2) is preempted, the preemptor leaves 100 ms later and the
// instance is re-elected inside the same heartbeat interval; from then on the checker reports unhealthy at
// every tick. The new term is demoted at its second consecutive unhealthy heartbeat tick — not earlier: one
// health check per heartbeat interval, whatever is left over from the previous term.
func vpH_C12_T_quick_reelection() {
	H := time.Second
	vpSetOpt("rand-fixed", 1)
	hc := &vpHealth{forceHealthy: true}
	s := vpFollowingInstance(H, func(cfg *ElectionConfig) {
		cfg.HealthChecker = hc
		cfg.MaxConsecutiveFailures = 2
	})
	time.Sleep(450 * time.Millisecond)
	s.st.write("env:other", "delete", nil, true, 0)
	time.Sleep(200 * time.Millisecond)
	vpQuiesce()
	if !s.e.IsLeader() {
		vpEndPath("not-elected")
	}
	vpDelay("preempt", 100*time.Millisecond, 700*time.Millisecond)
	s.st.write("env:hi", "update", vpRecMk("hi", "tok-hi", 9), false, s.st.lastSeq)
	time.Sleep(100 * time.Millisecond)
	s.st.write("env:hi", "delete", nil, true, 0)
	time.Sleep(150 * time.Millisecond)
	vpQuiesce()
	if !s.e.IsLeader() || s.cb.promotes != 2 {
		vpEndPath("not-re-elected")
	}
	t2 := s.cb.promoteAt
	d0 := s.cb.demotes
	hc.forceHealthy = false
	hc.forceUnhealthy = true
	time.Sleep(3 * H)
	vpQuiesce()
	vpCover("C12.quick-reelection")
	vpAssert("C12.exactly-at-n", s.cb.demotes == d0+1 && !s.e.IsLeader())
	vpAssert("C12.never-before-n", vpImplies(s.cb.demotes == d0+1, s.cb.demoteAt >= t2+int64(2*H)))
	_ = s.e.Stop()
}

// vpH_C12_T_reconnect_in_streak: connection monitoring and a health checker together; the checker reports
// unhealthy at every tick (threshold 3) and in the middle of the streak the connection blips (disconnect,
// reconnect, successful verification). Connection events are not health verdicts: the leader is demoted at its
// third consecutive unhealthy tick all the same.
func vpH_C12_T_reconnect_in_streak() {
	H := time.Second
	hc := &vpHealth{forceUnhealthy: true}
	vpConnCfgMod = func(cfg *ElectionConfig) {
		cfg.HealthChecker = hc
		cfg.MaxConsecutiveFailures = 3
	}
	s := vpConnInstance(H, 0, nil)
	s.kv.opLeft = 40
	t0 := vpNow()
	time.Sleep(H + 200*time.Millisecond)
	s.notify(0)
	time.Sleep(H)
	s.notify(1)
	time.Sleep(2 * H)
	vpQuiesce()
	vpCover("C12.reconnect-in-streak")
	vpAssert("C12.exactly-at-n", s.cb.demotes == 1 && !s.e.IsLeader() && len(hc.verdicts) == 3)
	vpAssert("C12.exactly-at-n:time", vpImplies(s.cb.demotes == 1, s.cb.demoteAt <= t0+int64(3*H)+int64(200*time.Millisecond)))
	_ = s.e.Stop()
}
