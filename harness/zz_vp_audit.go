//go:build verif

package leader

// vpAuditLog checks the complete mutation log of the reference store from the point of view of the real
// instance `self` (C01: every successful mutation it issued is one of the allowed forms; C05: token rules).
// prioOf/takeover describe self's configuration.
func vpAuditLog(st *vpStore, self string, takeover bool, prio int, stoppedWithDelete bool) {
	vpAuditLogL(st, self, takeover, prio, stoppedWithDelete, false)
}

// leaderAtStop: the instance still reported leadership when its graceful shutdown was called
func vpAuditLogL(st *vpStore, self string, takeover bool, prio int, stoppedWithDelete bool, leaderAtStop bool) {
	seen := map[string]bool{} // tokens that ever appeared in the record
	curTok := ""
	for _, m := range st.log {
		if !m.ok {
			continue
		}
		if m.by != self {
			if m.op != "delete" && vpRecParses(m.newVal) {
				if t, ok := vpConcreteStr(vpRecTok(m.newVal)); ok {
					seen[t] = true
				}
			}
			continue
		}
		switch m.op {
		case "create":
			vpAssert("C01.mut.create-when-vacant", !m.prevLive)
			tok := vpRecTok(m.newVal)
			vpAssert("C01.mut.payload-own", vpRecID(m.newVal) == self)
			if t, ok := vpConcreteStr(tok); ok {
				vpAssert("C05.fresh-per-acquire", !seen[t])
				seen[t] = true
				curTok = t
			}
		case "update":
			if m.prevLive && m.prevBy == self {
				// refresh: same identity and token, against exactly the previous revision
				vpAssert("C01.mut.refresh-own-exact", m.rev == m.prevSeq && vpRecID(m.newVal) == self)
				if t, ok := vpConcreteStr(vpRecTok(m.newVal)); ok {
					if pt, ok2 := vpConcreteStr(vpRecTok(m.prevVal)); ok2 {
						vpAssert("C05.refresh-same-token", t == pt)
						vpAssert("C01.mut.refresh-same-token", t == pt)
					}
				}
			} else if m.prevLive {
				// replacement of another owner's live record: only strictly higher priority with takeover enabled
				vpAssert("C01.mut.replace-strictly-higher", vpAnd(takeover, vpAnd(vpRecParses(m.prevVal), prio > vpRecPrio(m.prevVal))))
				vpAssert("C10.replace-only-strictly-higher", vpAnd(takeover, vpAnd(vpRecParses(m.prevVal), prio > vpRecPrio(m.prevVal))))
				vpAssert("C13.no-claim-over-foreign", vpAnd(takeover, vpAnd(vpRecParses(m.prevVal), prio > vpRecPrio(m.prevVal))))
				vpAssert("C01.mut.replace-revision-checked", m.rev == m.prevSeq)
				if t, ok := vpConcreteStr(vpRecTok(m.newVal)); ok {
					vpAssert("C05.fresh-per-acquire", !seen[t])
					seen[t] = true
					curTok = t
				}
			} else {
				// update over a tombstone / expired record = creation
				vpAssert("C01.mut.update-on-vacant", m.rev == m.prevSeq)
			}
		case "delete":
			own := stoppedWithDelete && m.prevLive && m.prevBy == self
			if own {
				break
			}
			// who owned the record when this delete was issued?
			ownerAtIssue := ""
			for _, is := range st.issued {
				if is.by == self && is.op == "delete" && is.at <= m.at {
					ownerAtIssue = is.ownerAt
				}
			}
			switch {
			case stoppedWithDelete && ownerAtIssue == self:
				vpAssert("C01.mut.delete-own:lost-in-flight", false) // replaced between issue and application of the Delete
			case stoppedWithDelete && leaderAtStop:
				vpAssert("C01.mut.delete-own:unnoticed-preemption", false) // still claimed leadership at the stop call, record already a successor's
			default:
				vpAssert("C01.mut.delete-own", false)
			}
		}
	}
	_ = curTok
}

