//go:build verif

package leader

import (
	"context"
	"errors"
	"fmt"
	"time"

	"github.com/nats-io/nats.go"
	"github.com/prometheus/client_golang/prometheus"
)

// ---------------------------------------------------------------------------------------------
// Reference store: one JetStream-KV-like key (the election group's record), shared by every
// handle. Written in Go so that the identical stub is interpreted by gosym and runs natively in
// replay. Every operation of a handle is: yield(issue); fault choice; request latency; atomic
// apply; yield(ack); response latency.
// ---------------------------------------------------------------------------------------------

const (
	vpDialectMock = 0 // error texts of internal/natsmock
	vpDialectNATS = 1 // error values of the nats.go client
)

type vpMut struct {
	op       string // create | update | delete
	by       string // handle name ("env:<id>" for environment actions)
	key      string
	rev      uint64 // expected revision (update)
	ok       bool
	at       int64
	prevLive bool
	prevBy   string
	prevVal  []byte
	prevSeq  uint64
	newVal   []byte
	newSeq   uint64
}

type vpIssue struct {
	op      string
	by      string
	at      int64
	ownerAt string // owner of the live record when the operation was issued ("" = none)
}

type vpStore struct {
	key       string
	ttl       time.Duration // 0: records never expire
	lastSeq   uint64        // last sequence on the key; 0 = nothing retained
	tomb      bool
	val       []byte
	writtenAt int64
	writer    string
	seq       uint64
	dialect   int
	log       []vpMut
	issued    []vpIssue
	watchers  []*vpWatcher
	watchMode int  // 0: NATS-like (initial value, nil marker, stays open); 1: mock-like (initial value, closed)
	watchFail bool // Watch() returns an error
	noEvents  bool // watch events are never delivered (lost)
	watchStopYield bool // Watcher.Stop() is a scheduling point
	onExpire  func(owner string)  // harness monitor, called when the record is found to have lapsed
	onWrite   func(by, op string) // harness monitor, called before a successful mutation is applied
	symErrVal error
	nWatch, maxWatches int // number of Watch calls so far / bound whose excess is reported as unbounded activity
	symErr    bool // injected failures carry an arbitrary (symbolic) error text instead of the dialect's time-out error
	cut       bool // store unreachable: operations fail/hang according to the handle's fault config
}

func vpNewStore(key string, ttl time.Duration) *vpStore {
	return &vpStore{key: key, ttl: ttl, dialect: vpDialectNATS}
}

func (s *vpStore) expire() {
	if s.ttl > 0 && s.lastSeq != 0 && !s.tomb {
		if vpNow()-s.writtenAt >= int64(s.ttl) {
			if s.onExpire != nil {
				s.onExpire(s.writer)
			}
			s.lastSeq = 0 // silent: MaxAge removes the message, no watch event
			s.val = nil
		}
	}
}
func (s *vpStore) live() bool {
	s.expire()
	return s.lastSeq != 0 && !s.tomb
}

func (s *vpStore) errConflict() error {
	if s.dialect == vpDialectMock {
		return errors.New("revision mismatch")
	}
	return &nats.APIError{Code: 400, ErrorCode: nats.JSErrCodeStreamWrongLastSequence, Description: fmt.Sprintf("wrong last sequence: %d", s.lastSeq)}
}
func (s *vpStore) errExists() error {
	if s.dialect == vpDialectMock {
		return errors.New("key already exists")
	}
	return fmt.Errorf("%w: %s", s.errConflict(), "key exists")
}
func (s *vpStore) errNotFound() error {
	if s.dialect == vpDialectMock {
		return errors.New("key not found")
	}
	return nats.ErrKeyNotFound
}
func (s *vpStore) errUnreachable() error {
	if s.symErr {
		if s.symErrVal == nil {
			s.symErrVal = errors.New(vpStr("neterr")) // whatever the client library's error says (one text per run)
		}
		return s.symErrVal
	}
	if s.dialect == vpDialectMock {
		return errors.New("connection lost")
	}
	return nats.ErrTimeout
}

func (s *vpStore) write(by, op string, val []byte, tomb bool, rev uint64) uint64 {
	if s.onWrite != nil {
		s.onWrite(by, op)
	}
	m := vpMut{op: op, by: by, key: s.key, rev: rev, ok: true, at: vpNow(), prevLive: s.lastSeq != 0 && !s.tomb, prevBy: s.writer, prevVal: s.val, prevSeq: s.lastSeq, newVal: val}
	s.seq++
	s.lastSeq = s.seq
	s.tomb = tomb
	s.val = val
	s.writtenAt = vpNow()
	s.writer = by
	m.newSeq = s.seq
	s.log = append(s.log, m)
	s.notify()
	return s.seq
}
func (s *vpStore) failed(by, op string, rev uint64) {
	s.log = append(s.log, vpMut{op: op, by: by, key: s.key, rev: rev, ok: false, at: vpNow(), prevLive: s.lastSeq != 0 && !s.tomb, prevBy: s.writer, prevVal: s.val, prevSeq: s.lastSeq})
}

func (s *vpStore) applyCreate(by string, key string, val []byte) (uint64, error) {
	if key != s.key {
		vpAssert("C01.mut.key-is-group", false)
	}
	if s.live() {
		s.failed(by, "create", 0)
		return 0, s.errExists()
	}
	return s.write(by, "create", val, false, 0), nil
}
func (s *vpStore) applyUpdate(by string, key string, val []byte, rev uint64) (uint64, error) {
	if key != s.key {
		vpAssert("C01.mut.key-is-group", false)
	}
	s.expire()
	if rev != s.lastSeq {
		s.failed(by, "update", rev)
		if s.dialect == vpDialectMock && !s.live() {
			return 0, s.errNotFound() // the in-repo mock answers an Update of a missing key with "key not found"
		}
		return 0, s.errConflict()
	}
	return s.write(by, "update", val, false, rev), nil
}
func (s *vpStore) applyGet(key string) (Entry, error) {
	if !s.live() {
		return nil, s.errNotFound()
	}
	return &vpEntry{k: key, v: s.val, rev: s.lastSeq}, nil
}
func (s *vpStore) applyDelete(by string, key string) error {
	if key != s.key {
		vpAssert("C01.mut.key-is-group", false)
	}
	s.expire()
	s.write(by, "delete", nil, true, 0)
	return nil
}

func (s *vpStore) notify() {
	if s.noEvents {
		return
	}
	for _, w := range s.watchers {
		if w.stopped || w.closed {
			continue
		}
		w.push(&vpEntry{k: s.key, v: s.val, rev: s.lastSeq})
	}
}

// closeWatchers: the server tears down every watch subscription (the update channels are closed).
func (s *vpStore) closeWatchers() {
	for _, w := range s.watchers {
		if w.stopped || w.closed {
			continue
		}
		w.closed = true
		close(w.ch)
	}
}

type vpEntry struct {
	k   string
	v   []byte
	rev uint64
}

func (e *vpEntry) Key() string      { return e.k }
func (e *vpEntry) Value() []byte    { return e.v }
func (e *vpEntry) Revision() uint64 { return e.rev }

type vpWatcher struct {
	stopYield bool
	ch      chan Entry
	stopped bool
	closed  bool
	dropped int
}

func (w *vpWatcher) Updates() <-chan Entry { return w.ch }
func (w *vpWatcher) Stop() {
	if w.stopYield {
		vpYield("watch.stop") // stopping a watcher is a call into the client library: optionally a scheduling point
		vpDelay("watch.stop", 0, 2*time.Second) // ... that may take a while
	}
	w.stopped = true
}
func (w *vpWatcher) push(e Entry) {
	if len(w.ch) == cap(w.ch) {
		w.dropped++ // a consumer that does not keep up loses the event (never happens within the budgets used)
		return
	}
	w.ch <- e
}

// fault kinds a handle may inject per operation
const (
	vpFaultNone      = 0
	vpFaultErr       = 1 // error before the operation is applied
	vpFaultAckLost   = 2 // applied, caller sees an error
	vpFaultHang      = 3 // never answers (not applied)
	vpFaultHangAfter = 4 // applied, never answers
)

type vpKV struct {
	st        *vpStore
	name      string
	lat       time.Duration // bound of each latency leg; 0 = none
	faults    []int         // fault kinds that may be chosen (besides none)
	faultLeft int           // fault budget
	faultOps  string        // "" = all operations, otherwise only this one
	opLeft    int           // operation budget (<0: unlimited); exceeding it ends the path (counted)
	nOps      int
	curStart  int64
	lastOKStart int64 // issue instant of this handle's last successful write
	cutLat    time.Duration
	latResp   time.Duration // bound of the response leg (0 = immediate)
	ackYield  bool
	getRespLat time.Duration // fixed response latency of Get
	hangLat   time.Duration // an unanswered request fails after this long
	hangIsTimeout bool // an unanswered request fails after the client's 5s request time-out instead of hanging for ever
	afterApply func(op string)
	createRespLat time.Duration // fixed response latency of Create (the write is applied at once, its answer is late)
	hangGets  bool // every read hangs for ever (the caller's own time-out is all that ends it)
	beforeIssue func(op string) // adversarial environment: acts right before this operation is issued
	latMin    time.Duration // lower bound of the request latency (latMin == lat: concrete latency)
	faultForce bool // inject faults[0] without asking the explorer
	watchFailLeft int
	latOps    string // "" = the request latency applies to every operation, otherwise only to this one
	getRespSeq []time.Duration // concrete response latency of the n-th Get (then none)
	getRespN  int
	latSeq    []time.Duration // concrete request latency of the n-th such operation (then none)
	latN      int
}

func (k *vpKV) begin(op string) int {
	k.nOps++
	if k.opLeft == 0 {
		vpEndPath("store-ops")
	}
	if k.opLeft > 0 {
		k.opLeft--
	}
	if k.beforeIssue != nil {
		k.beforeIssue(op)
	}
	if op == "get" && k.hangGets {
		vpEvent("issue", op, k.name)
		vpBlockForever() // reads are never answered
	}
	k.curStart = vpNow()
	owner := ""
	if k.st.live() {
		owner = k.st.writer
	}
	k.st.issued = append(k.st.issued, vpIssue{op: op, by: k.name, at: vpNow(), ownerAt: owner})
	vpEvent("issue", op, k.name)
	vpYield(op + ".issue")
	f := vpFaultNone
	if k.faultLeft > 0 && len(k.faults) > 0 && (k.faultOps == "" || k.faultOps == op) {
		c := 1
		if !k.faultForce {
			c = vpChoose("fault."+op, len(k.faults)+1)
		}
		if c > 0 {
			f = k.faults[c-1]
			k.faultLeft--
			vpEvent("fault", op, f)
		}
	}
	if f == vpFaultHang {
		if k.hangLat > 0 {
			vpDelay(op+".slow", k.hangLat, k.hangLat)
			return vpFaultErr
		}
		if k.hangIsTimeout {
			vpDelay(op+".clienttimeout", 5*time.Second, 5*time.Second) // nats.go request time-out
			return vpFaultErr
		}
		vpBlockForever()
	}
	if k.latOps == "" || k.latOps == op {
		if k.latSeq != nil {
			d := time.Duration(0)
			if k.latN < len(k.latSeq) {
				d = k.latSeq[k.latN]
			}
			k.latN++
			vpDelay(op+".req", d, d)
		} else {
			vpDelay(op+".req", k.latMin, k.lat)
		}
	}
	if k.st.cut && f == vpFaultNone {
		// the store became unreachable before the request arrived: error after a while, or no answer at all
		if vpChoose("cut."+op, 2) == 1 {
			vpBlockForever()
		}
		vpDelay(op+".cuterr", 0, k.cutLat)
		f = vpFaultErr
	}
	return f
}
func (k *vpKV) end(op string, f int) int {
	if k.afterApply != nil {
		k.afterApply(op) // adversarial environment: acts right after this operation was applied
	}
	if f == vpFaultHangAfter {
		vpBlockForever()
	}
	if k.ackYield {
		vpYield(op + ".ack") // scheduling point between application and response (stop-point harnesses)
	}
	if op == "create" && k.createRespLat > 0 {
		vpDelay("create.resp", k.createRespLat, k.createRespLat) // the answer to a Create travels this long
	} else if op == "get" && k.getRespSeq != nil {
		d := time.Duration(0)
		if k.getRespN < len(k.getRespSeq) {
			d = k.getRespSeq[k.getRespN]
		}
		k.getRespN++
		vpDelay("get.resp", d, d)
	} else if op == "get" && k.getRespLat > 0 {
		vpDelay("get.resp", k.getRespLat, k.getRespLat) // the answer to a read travels this long
	} else {
		vpDelay(op+".resp", 0, k.latResp)
	}
	if k.st.cut && f == vpFaultNone {
		// applied, but the acknowledgement is lost
		if vpChoose("cutack."+op, 2) == 1 {
			vpBlockForever()
		}
		vpDelay(op+".cuterr", 0, k.cutLat)
		return vpFaultAckLost
	}
	return f
}

func (k *vpKV) Create(key string, value []byte, opts ...interface{}) (uint64, error) {
	f := k.begin("create")
	if f == vpFaultErr {
		return 0, k.st.errUnreachable()
	}
	start := k.curStart
	rev, err := k.st.applyCreate(k.name, key, value)
	if err == nil {
		k.lastOKStart = start
	}
	f = k.end("create", f)
	if f == vpFaultAckLost {
		return 0, k.st.errUnreachable()
	}
	return rev, err
}
func (k *vpKV) Update(key string, value []byte, rev uint64, opts ...interface{}) (uint64, error) {
	f := k.begin("update")
	if f == vpFaultErr {
		return 0, k.st.errUnreachable()
	}
	start := k.curStart
	nrev, err := k.st.applyUpdate(k.name, key, value, rev)
	if err == nil {
		k.lastOKStart = start
	}
	f = k.end("update", f)
	if f == vpFaultAckLost {
		return 0, k.st.errUnreachable()
	}
	return nrev, err
}
func (k *vpKV) Get(key string) (Entry, error) {
	f := k.begin("get")
	if f == vpFaultErr {
		return nil, k.st.errUnreachable()
	}
	e, err := k.st.applyGet(key)
	f = k.end("get", f)
	if f == vpFaultAckLost {
		return nil, k.st.errUnreachable()
	}
	return e, err
}
func (k *vpKV) Delete(key string) error {
	f := k.begin("delete")
	if f == vpFaultErr {
		return k.st.errUnreachable()
	}
	err := k.st.applyDelete(k.name, key)
	f = k.end("delete", f)
	if f == vpFaultAckLost {
		return k.st.errUnreachable()
	}
	return err
}
func (k *vpKV) Watch(key string, opts ...interface{}) (Watcher, error) {
	vpEvent("issue", "watch", k.name)
	k.st.issued = append(k.st.issued, vpIssue{op: "watch", by: k.name, at: vpNow()})
	vpYield("watch.issue")
	k.st.nWatch++
	if k.st.maxWatches > 0 && k.st.nWatch > k.st.maxWatches {
		vpAssert("C13.no-unbounded", false) // watch subscriptions pile up
		vpEndPath("watch-subscriptions")
	}
	if k.st.watchFail || k.watchFailLeft > 0 {
		if k.watchFailLeft > 0 {
			k.watchFailLeft--
		}
		return nil, k.st.errUnreachable()
	}
	w := &vpWatcher{ch: make(chan Entry, 32), stopYield: k.st.watchStopYield}
	s := k.st
	s.expire()
	if s.lastSeq != 0 {
		w.ch <- &vpEntry{k: key, v: s.val, rev: s.lastSeq} // tombstone: empty value
	}
	if s.watchMode == 0 {
		w.ch <- nil // "initial values done" marker, as nats.go's watcher delivers it
		s.watchers = append(s.watchers, w)
	} else {
		close(w.ch)
		w.closed = true
	}
	return w, nil
}

type vpJS struct{ kv *vpKV }

func (j *vpJS) KeyValue(bucket string) (KeyValue, error) { return j.kv, nil }

type vpProvider struct{ kv *vpKV }

func (p *vpProvider) JetStream() (JetStreamContext, error) { return &vpJS{p.kv}, nil }

// provider that also exposes a (never connected) *nats.Conn: enables connection monitoring
type vpConnProvider struct {
	kv   *vpKV
	conn *nats.Conn
}

func (p *vpConnProvider) JetStream() (JetStreamContext, error) { return &vpJS{p.kv}, nil }
func (p *vpConnProvider) NATSConnection() *nats.Conn          { return p.conn }

func vpHandle(st *vpStore, name string) *vpKV {
	return &vpKV{st: st, name: name, opLeft: -1}
}

// ---------------------------------------------------------------------------------------------
// Recorders
// ---------------------------------------------------------------------------------------------

type vpCallbacks struct {
	log        []string // "P:<token>" / "D"
	promotes   int
	demotes    int
	lastTok    string
	ctxs       []context.Context
	demoteAt   int64
	promoteAt  int64
	onDemoteFn func()
	blockOnCtx bool
	drain      time.Duration // after cancellation the callback needs this long to wind down
}

func (c *vpCallbacks) install(e Election) {
	e.OnPromote(func(ctx context.Context, token string) {
		c.log = append(c.log, "P:"+token)
		c.promotes++
		c.lastTok = token
		c.promoteAt = vpNow()
		c.ctxs = append(c.ctxs, ctx)
		vpEvent("promote", token)
		if c.blockOnCtx {
			<-ctx.Done()
			if c.drain > 0 {
				time.Sleep(c.drain)
			}
		}
	})
	e.OnDemote(func() {
		c.log = append(c.log, "D")
		c.demotes++
		c.demoteAt = vpNow()
		vpEvent("demote")
		if c.onDemoteFn != nil {
			c.onDemoteFn()
		}
	})
}

type vpMetrics struct {
	yieldOn     bool // every metrics call is a scheduling point (user-provided Metrics are ordinary code)
	gauge       float64
	gaugeSet    bool
	transitions [][2]string
	onFlag      func(v float64)
	tokenFails  int
	connStatus  float64
}

func (m *vpMetrics) SetIsLeader(value float64, labels prometheus.Labels) {
	m.gauge = value
	m.gaugeSet = true
	if m.onFlag != nil {
		m.onFlag(value)
	}
	if m.yieldOn {
		vpYield("metrics.is-leader")
	}
}
func (m *vpMetrics) SetConnectionStatus(value float64, labels prometheus.Labels) { m.connStatus = value }
func (m *vpMetrics) IncTransitions(labels prometheus.Labels) {
	m.transitions = append(m.transitions, [2]string{labels["from_state"], labels["to_state"]})
	if m.yieldOn {
		vpYield("metrics.transition")
	}
}
func (m *vpMetrics) IncFailures(labels prometheus.Labels)                {}
func (m *vpMetrics) IncAcquireAttempts(labels prometheus.Labels)         {}
func (m *vpMetrics) IncTokenValidationFailures(labels prometheus.Labels) { m.tokenFails++ }
func (m *vpMetrics) ObserveHeartbeatDuration(duration time.Duration, labels prometheus.Labels) {
}
func (m *vpMetrics) ObserveLeaderDuration(duration time.Duration, labels prometheus.Labels) {
	if m.yieldOn {
		vpYield("metrics.leader-duration")
	}
}

// scripted health checker: verdict per call chosen by the solver/explorer
type vpHealth struct {
	yieldInCheck bool // the check takes a moment: a scheduling point inside Check
	calls    int
	verdicts []bool
	deadlineOK bool
	maxCalls int
	forceHealthy bool // from now on every verdict is "healthy" (no explorer choice)
	forceUnhealthy bool // from now on every verdict is "unhealthy"
	noTwoUnhealthy bool // an unhealthy verdict is always followed by a healthy one (no explorer choice there)
	maySlow  bool // the checker may ignore its context and answer after 150 ms (explorer's choice per call)
	slow     []bool
}

func (h *vpHealth) Check(ctx context.Context) bool {
	h.calls++
	dl, has := ctx.Deadline()
	ok := has && dl.Sub(time.Now()) <= 100*time.Millisecond
	vpAssert("C12.ctx-100ms", ok)
	if h.maxCalls > 0 && h.calls > h.maxCalls {
		// beyond the scripted prefix: healthy at once (bounds the exploration when ticks are frequent)
		h.verdicts = append(h.verdicts, true)
		vpEvent("health", h.calls, true)
		return true
	}
	v := true
	if h.forceUnhealthy {
		v = false
	} else if h.noTwoUnhealthy && len(h.verdicts) > 0 && !h.verdicts[len(h.verdicts)-1] {
		v = true
	} else if !h.forceHealthy {
		v = vpChoose("healthy", 2) == 1
	}
	if h.yieldInCheck {
		vpYield("health.check")
	}
	if h.maySlow {
		sl := vpChoose("slow-check", 2) == 1
		h.slow = append(h.slow, sl)
		if sl {
			time.Sleep(150 * time.Millisecond) // does not honour the context; the verdict is what it returns
		}
	}
	h.verdicts = append(h.verdicts, v)
	vpEvent("health", h.calls, v)
	return v
}

func vpBaseConfig(id string, H, ttl time.Duration) ElectionConfig {
	return ElectionConfig{Bucket: "b", Group: "g", InstanceID: id, TTL: ttl, HeartbeatInterval: H}
}

func vpMustNew(p JetStreamProvider, cfg ElectionConfig) *kvElection {
	e, err := newKVElection(p, cfg)
	if err != nil {
		vpAssert("harness.config-accepted", false)
		vpEndPath("config")
	}
	return e
}
