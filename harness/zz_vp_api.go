//go:build verif

package leader

import (
	"context"
	"time"
)

// Harness API: bodiless here (intercepted by the symbolic executor gosym);
// /verif/harness/native/zz_vp_native.go gives the same functions real bodies for native replay.

func vpInt64(name string) int64
func vpInt(name string) int
func vpBool(name string) bool
func vpStr(name string) string
func vpFloat(name string) float64
func vpRec(name string) []byte // arbitrary record contents (abstract JSON: parse results are symbolic)
func vpRecMk(id, tok string, prio int) []byte
func vpNoteToken(tok string) // tells the replay which real token stands for the executor's k-th "uuid-k"
func vpRecID(r []byte) string
func vpRecTok(r []byte) string
func vpRecPrio(r []byte) int
func vpRecParses(r []byte) bool
func vpRecEmpty(r []byte) bool
func vpSameBytes(a, b []byte) bool // the same byte string (identity of the abstract record / bytes.Equal natively)
func vpRecMapID(r []byte) (bool, string)
func vpRecMapTok(r []byte) (bool, string)
func vpChoose(name string, n int) int
func vpConcrete(name string, v int, lo, hi int) int
func vpAssume(b bool)
func vpAssert(id string, b bool)
func vpCover(id string)
func vpAnd(a, b bool) bool
func vpOr(a, b bool) bool
func vpNot(a bool) bool
func vpImplies(a, b bool) bool
func vpIte(c bool, a, b int64) int64
func vpYield(label string)
func vpYieldLazy(label string, maxWait time.Duration) // parked until chosen at a store-visible point or maxWait elapsed
func vpYieldLazyOps(label string, maxWait time.Duration) // as vpYieldLazy, but only chosen while another goroutine is parked at a store-operation leg
func vpDelay(label string, lo, hi time.Duration)
func vpNow() int64
func vpEvent(kind string, args ...any)
func vpSite() string
func vpEndPath(why string)
func vpBlockForever()
func vpQuiesce()
func vpThreadsAlive() int
func vpThreadsAliveDesc() string
func vpDeadlocked() string
func vpSetOpt(name string, v int)
func vpRaces() int
func vpRootCtx() context.Context
func vpConcreteStr(s string) (string, bool) // (s,true) for a concrete string; symbolic strings cannot key a map
