//go:build verif

package leader

import (
	"strings"
	"time"

	"github.com/nats-io/nats.go"
	"go.uber.org/zap"
)

// logger that turns chosen log lines into scheduling points: user-provided loggers are ordinary code that
// may block, and some of the library's log calls are made inside critical sections
type vpYieldLogger struct{ at map[string]bool }

func (l *vpYieldLogger) hit(msg string) {
	if l.at[msg] {
		vpYield("log." + msg)
	}
}
func (l *vpYieldLogger) Debug(msg string, fields ...zap.Field) { l.hit(msg) }
func (l *vpYieldLogger) Info(msg string, fields ...zap.Field)  { l.hit(msg) }
func (l *vpYieldLogger) Warn(msg string, fields ...zap.Field)  { l.hit(msg) }
func (l *vpYieldLogger) Error(msg string, fields ...zap.Field) { l.hit(msg) }
func (l *vpYieldLogger) Fatal(msg string, fields ...zap.Field) { l.hit(msg) }

type vpConnScn struct {
	st    *vpStore
	kv    *vpKV
	e     *kvElection
	cb    *vpCallbacks
	m     *vpMetrics
	conn  *nats.Conn
	H, G  time.Duration
	lastD int64
	recon bool // a reconnect notification arrived after the latest disconnect
	graceDemotions int
	early bool
}

// vpConnCfgMod: further configuration applied by the next vpConnInstance
var vpConnCfgMod func(cfg *ElectionConfig)

func vpConnInstance(H time.Duration, grace time.Duration, logAt map[string]bool) *vpConnScn {
	s := &vpConnScn{H: H, lastD: -1}
	s.G = grace
	if grace == 0 {
		s.G = 3 * H
		if s.G < 5*time.Second {
			s.G = 5 * time.Second
		}
	}
	s.st = vpNewStore("g", 0)
	s.kv = vpHandle(s.st, "a")
	s.conn = &nats.Conn{}
	cfg := vpBaseConfig("a", H, 3*H)
	cfg.ValidationInterval = time.Hour
	cfg.DisconnectGracePeriod = grace
	s.m = &vpMetrics{}
	wasL := false
	s.m.onFlag = func(v float64) {
		if wasL && v == 0 {
			site := vpSite()
			vpEvent("flag-down", site)
			if vpSiteHas(site, "handleGracePeriodExpired") {
				s.graceDemotions++
				// never before the grace period has elapsed since the LATEST disconnect notification
				vpAssert("C11.not-before-grace", s.lastD >= 0 && vpNow() >= s.lastD+int64(s.G))
				vpAssert("C11.at-grace", vpNow() == s.lastD+int64(s.G))
			}
		}
		wasL = v == 1
	}
	cfg.Metrics = s.m
	if logAt != nil {
		cfg.Logger = &vpYieldLogger{at: logAt}
	}
	if vpConnCfgMod != nil {
		vpConnCfgMod(&cfg)
		vpConnCfgMod = nil
	}
	s.e = vpMustNew(&vpConnProvider{kv: s.kv, conn: s.conn}, cfg)
	s.cb = &vpCallbacks{}
	if vpCbTemplate != nil {
		s.cb = vpCbTemplate
		vpCbTemplate = nil
	}
	s.cb.install(s.e)
	_ = s.e.Start(vpRootCtx())
	vpQuiesce()
	vpAssert("harness.leader-after-start", s.e.IsLeader())
	vpAssert("harness.monitor-wired", s.conn.Opts.DisconnectedCB != nil && s.conn.Opts.ReconnectedCB != nil)
	return s
}

func vpSiteHas(site, fn string) bool { return strings.Contains(site, fn) }

// notifications are dispatched one at a time, as nats.go does
func (s *vpConnScn) notify(kind int) {
	switch kind {
	case 0:
		s.lastD = vpNow()
		s.recon = false
		vpEvent("notify", "D")
		if cbf := s.conn.Opts.DisconnectedCB; cbf != nil {
			cbf(s.conn)
		}
	case 1:
		s.recon = true
		vpEvent("notify", "R")
		if cbf := s.conn.Opts.ReconnectedCB; cbf != nil {
			cbf(s.conn)
		}
	case 2:
		vpEvent("notify", "C")
		if cbf := s.conn.Opts.ClosedCB; cbf != nil {
			cbf(s.conn)
		}
	}
}

// vpH_C11_T_grace: up to three notifications (disconnect / reconnect) at symbolic instants (flapping
// included), grace period default (5s) or configured (2H..8s symbolic): never demoted by the grace mechanism
// before lastDisconnect+G, demoted exactly then (with OnDemote) when no reconnect arrived and it still leads.
func vpH_C11_T_grace() { vpC11Grace(3) }

// thorough: up to five notifications
func vpH_C11_T_grace5() { vpC11Grace(5) }

func vpC11Grace(maxN int) {
	H := 10 * time.Second // few heartbeats inside the horizon: they are independent of the notifications
	var grace time.Duration
	if vpChoose("grace", 2) == 1 {
		grace = time.Duration(vpInt64("G"))
		vpAssume(vpAnd(grace >= 2*H, grace <= 4*H))
	}
	s := vpConnInstance(H, grace, nil)
	s.kv.opLeft = 40
	n := 1 + vpChoose("notifications", maxN)
	for i := 0; i < n; i++ {
		vpDelay("gap", 0, 3*time.Second)
		// a disconnect not followed by a reconnect within the grace period must have demoted the leader by now
		if s.lastD >= 0 && !s.recon {
			vpAssert("C11.at-grace", vpImplies(vpNow() > s.lastD+int64(s.G), s.graceDemotions >= 1))
		}
		k := 0
		if i > 0 {
			k = vpChoose("kind", 2) // disconnect or reconnect
			if i == n-1 && k == 1 && vpChoose("closed-instead", 2) == 1 {
				k = 2 // the last notification is "closed": the client gave up, no reconnect will follow
			}
		}
		s.notify(k)
	}
	endsDisconnected := !s.recon
	time.Sleep(s.G + time.Second)
	vpQuiesce()
	vpCover("C11.grace")
	vpAssert("C11.no-deadlock", vpDeadlocked() == "")
	if endsDisconnected {
		// no reconnect since the latest disconnect: the grace mechanism has demoted it (now or at an earlier expiry)
		vpAssert("C11.at-grace", s.graceDemotions == 1 && !s.e.IsLeader())
		vpAssert("C11.at-grace:callback", s.cb.demotes == 1)
	} else {
		// the store was healthy and the record its own all along: it still leads unless a grace period had expired before the reconnect
		vpAssert("C11.reconnect-iff-own", s.e.IsLeader() == (s.graceDemotions == 0) && s.cb.demotes == s.graceDemotions)
	}
	_ = s.e.Stop()
	vpQuiesce()
	vpAssert("C11.threads-end", vpThreadsAlive() == 0)
}

// vpH_C11_T_reconnect_verify: ownership changes during the outage; after the reconnect notification the
// leader keeps leadership iff a fresh read shows its own id and token; no deadlock, no crash; Stop works.
func vpH_C11_T_reconnect_verify() {
	H := time.Second
	s := vpConnInstance(H, 0, nil)
	s.kv.opLeft = 40
	s.notify(0)
	change := vpChoose("during-outage", 4)
	s.st.noEvents = true
	switch change {
	case 1:
		s.st.write("env:other", "update", vpRecMk("other", "tok-other", 0), false, s.st.lastSeq)
	case 2:
		s.st.write("env:a2", "update", vpRecMk("a", "tok-later", 0), false, s.st.lastSeq)
	case 3:
		s.st.write("env:outsider", "update", vpRec("r"), false, s.st.lastSeq)
	}
	vpDelay("outage", 0, 800*time.Millisecond) // shorter than a heartbeat: the heartbeat has not noticed yet
	s.notify(1)
	time.Sleep(500 * time.Millisecond) // verification: 100ms settle + Get + validateToken
	vpQuiesce()
	vpCover("C11.reconnect-verify")
	dl := vpDeadlocked()
	vpAssert("C11.no-deadlock", dl == "")
	if dl != "" {
		return
	}
	if change == 0 {
		vpAssert("C11.reconnect-iff-own", s.e.IsLeader() && s.cb.demotes == 0)
	} else if change != 3 {
		vpAssert("C11.reconnect-iff-own", !s.e.IsLeader() && s.cb.demotes == 1)
	}
	_ = s.e.Stop()
	vpQuiesce()
	vpAssert("C11.threads-end", vpThreadsAlive() == 0)
}

// vpH_C11_T_stop_vs_expiry: Stop (both variants) placed by the explorer at every point of a disconnect /
// grace-expiry sequence, including inside the expiry handler (the logger is a scheduling point).
// vpH_C11_T_stop_vs_notify: a disconnect notification placed by the explorer at every switch point of a running
// Stop / StopWithContext (the Metrics calls inside the stop call's critical section are scheduling points).
func vpH_C11_T_stop_vs_notify() {
	H := time.Second
	s := vpConnInstance(H, 2*H, map[string]bool{"connection_disconnected": true, "connection_reconnected": true, "verifying_leadership_after_reconnect": true})
	s.m.yieldOn = true
	s.kv.opLeft = 40
	variant := vpChoose("variant", 2)
	kind := vpChoose("notification", 2) // 0: a disconnect, 1: (after an earlier disconnect) a reconnect
	if kind == 1 {
		s.notify(0)
	}
	stopped := false
	go func() {
		vpYieldLazy("notify", H)
		s.notify(kind)
	}()
	time.Sleep(H / 4)
	_ = vpDoStop(s.e, variant)
	stopped = true
	opsAtRet := len(s.st.issued)
	time.Sleep(6 * time.Second)
	vpQuiesce()
	vpCover("C11.stop-vs-notify")
	vpAssert("C11.no-deadlock", vpDeadlocked() == "" && stopped)
	vpAssert("C09.no-deadlock", vpDeadlocked() == "" && stopped)
	vpAssert("C11.threads-end", vpThreadsAlive() == 0)
	vpAssert("C09.no-op-after-stop", len(s.st.issued) == opsAtRet) // e.g. a reconnect verification started behind the stop's back
	vpAssert("C09.no-claim-after-stop", !s.e.IsLeader())
}

func vpH_C11_T_stop_vs_expiry() {
	H := time.Second
	s := vpConnInstance(H, 2*H, map[string]bool{"demoting_due_to_connection_loss": true, "connection_disconnected": true})
	s.kv.opLeft = 40
	variant := vpChoose("variant", 2)
	stopped := false
	go func() {
		vpYieldLazy("api.stop", 3*H)
		_ = vpDoStop(s.e, variant)
		stopped = true
	}()
	vpDelay("gap", 0, H)
	s.notify(0)
	time.Sleep(2*H + 6*time.Second)
	vpQuiesce()
	vpCover("C11.stop-vs-expiry")
	vpAssert("C11.no-deadlock", vpDeadlocked() == "" && stopped)
	vpAssert("C11.threads-end", vpThreadsAlive() == 0)
	vpAssert("C11.stopped", !s.e.IsLeader())
	vpAssert("C08.demote-once-per-edge", s.cb.promotes == 1 && s.cb.demotes == 1) // one term, ended once (by the stop or by the expiry)
}

// vpH_C11_T_late_notify: nats.go takes the handler's value when it QUEUES a notification on its dispatcher
// (`cb := nc.Opts.ReconnectedCB; ...; nc.ach.push(func() { cb(nc) })`), so a notification queued before the
// monitor's Stop unregistered the handlers is still delivered after a completed Stop / StopWithContext
// (which, unlike Stop, also clears the election's context). Any one or two late notifications, with or
// without an outage before the stop: nothing crashes, nothing is issued to the store, no claim.
func vpH_C11_T_late_notify() { vpC11LateNotify(2, 2, false) }

// thorough: all four stop variants (DeleteKey, WaitForDemote), up to three late notifications at symbolic gaps
func vpH_C11_T_late_notify_deep() { vpC11LateNotify(4, 3, true) }

func vpC11LateNotify(variants, maxN int, gaps bool) {
	H := time.Second
	s := vpConnInstance(H, 2*H, nil)
	s.kv.opLeft = 40
	dcb, rcb, ccb := s.conn.Opts.DisconnectedCB, s.conn.Opts.ReconnectedCB, s.conn.Opts.ClosedCB
	variant := vpChoose("variant", variants)
	if vpChoose("outage-before-stop", 2) == 1 {
		s.notify(0)
	}
	_ = vpDoStop(s.e, variant)
	vpQuiesce()
	opsAtRet := len(s.st.issued)
	n := 1 + vpChoose("late-notifications", maxN)
	for i := 0; i < n; i++ {
		if gaps {
			vpDelay("late-gap", 0, 3*H)
		}
		switch vpChoose("late-kind", 3) {
		case 0:
			vpEvent("late-notify", "D")
			dcb(s.conn)
		case 1:
			vpEvent("late-notify", "R")
			rcb(s.conn)
		case 2:
			vpEvent("late-notify", "C")
			ccb(s.conn)
		}
	}
	time.Sleep(2*H + 6*time.Second)
	vpQuiesce()
	vpCover("C11.late-notify")
	vpAssert("C11.no-deadlock", vpDeadlocked() == "")
	vpAssert("C11.threads-end", vpThreadsAlive() == 0)
	vpAssert("C09.no-op-after-stop", len(s.st.issued) == opsAtRet)
	vpAssert("C09.no-claim-after-stop", !s.e.IsLeader())
}

// vpH_C11_T_flapping_verify: the connection flaps while the verification started by the first reconnect is
// still under way (the logger call it makes inside its critical section is a scheduling point): a second
// disconnect, a change of ownership during that second outage, and a second reconnect notification are
// placed by the explorer at any switch point of the first verification. After the LAST reconnect notification
// the leader keeps leadership iff a read of the record made after it shows its own identity and token.
func vpH_C11_T_flapping_verify() {
	H := 10 * time.Second // no heartbeat inside the horizon: only the reconnect verification can notice
	s := vpConnInstance(H, 0, map[string]bool{"reconnect_verification_success": true})
	s.kv.opLeft = 40
	s.st.noEvents = true
	if vpChoose("slow-reads", 2) == 1 {
		s.kv.getRespLat = 300 * time.Millisecond // the answers to the verification's reads travel 300 ms: the flap may fall in between
	}
	s.notify(0)
	time.Sleep(300 * time.Millisecond)
	s.notify(1)
	change := vpChoose("during-second-outage", 3)
	r2 := int64(-1)
	go func() {
		vpYieldLazy("env.flap", time.Second)
		s.notify(0)
		switch change {
		case 1:
			s.st.write("env:other", "update", vpRecMk("other", "tok-other", 0), false, s.st.lastSeq)
		case 2:
			s.st.write("env:a2", "update", vpRecMk("a", "tok-later", 0), false, s.st.lastSeq)
		}
		r2 = vpNow()
		s.notify(1)
	}()
	time.Sleep(3 * time.Second)
	vpQuiesce()
	vpCover("C11.flapping-verify")
	dl := vpDeadlocked()
	vpAssert("C11.no-deadlock", dl == "")
	if dl != "" || r2 < 0 {
		return
	}
	if change == 0 {
		vpAssert("C11.reconnect-iff-own", s.e.IsLeader() && s.cb.demotes == 0)
	} else {
		vpAssert("C11.reconnect-iff-own", !s.e.IsLeader() && s.cb.demotes == 1)
	}
	_ = s.e.Stop()
	vpQuiesce()
	vpAssert("C11.threads-end", vpThreadsAlive() == 0)
}

// vpH_C11_T_grace_new_term: a disconnect notification, then — inside the grace period and without any
// reconnect notification — the term ends through another mechanism (its record is replaced, the next heartbeat
// conflicts), the record is vacated and the instance acquires a new term. When the grace period measured from
// the disconnect elapses, the instance still leads and no reconnect arrived: it is demoted at that moment, with
// the demotion callback.
func vpH_C11_T_grace_new_term() {
	H := time.Second
	vpSetOpt("rand-fixed", 1)
	s := vpConnInstance(H, 0, nil)
	s.kv.opLeft = 40
	vpDelay("gap", 0, 400*time.Millisecond)
	s.notify(0)
	time.Sleep(300 * time.Millisecond)
	s.st.write("env:other", "update", vpRecMk("other", "tok-other", 0), false, s.st.lastSeq)
	time.Sleep(H + 200*time.Millisecond) // the heartbeat has noticed
	vpQuiesce()
	vpAssert("harness.first-term-over", !s.e.IsLeader() && s.cb.demotes == 1)
	s.st.write("env:other", "delete", nil, true, 0)
	time.Sleep(500 * time.Millisecond)
	vpQuiesce()
	if !s.e.IsLeader() {
		vpEndPath("not-re-elected")
	}
	time.Sleep(s.G)
	vpQuiesce()
	vpCover("C11.grace-new-term")
	vpAssert("C11.at-grace", s.graceDemotions == 1 && !s.e.IsLeader())
	vpAssert("C11.at-grace:callback", s.cb.demotes == 2)
	_ = s.e.Stop()
	vpQuiesce()
	vpAssert("C11.threads-end", vpThreadsAlive() == 0)
}

// vpH_C19_T_connection: the promotion callback blocks on its context. (a) disconnect, no reconnect: at grace
// expiry the term ends and the context is cancelled; (b) disconnect, reconnect, successful verification: the
// term goes on and the context stays live — until the stop, which cancels it.
func vpH_C19_T_connection() {
	H := time.Second
	vpCbTemplate = &vpCallbacks{blockOnCtx: true}
	s := vpConnInstance(H, 2*H, nil)
	s.kv.opLeft = 40
	reconnects := vpChoose("reconnects", 2) == 1
	time.Sleep(300 * time.Millisecond)
	s.notify(0)
	if reconnects {
		time.Sleep(500 * time.Millisecond)
		s.notify(1)
	}
	time.Sleep(3 * H)
	vpQuiesce()
	vpCover("C19.connection")
	vpAssert("harness.one-promotion", len(s.cb.ctxs) == 1)
	if reconnects {
		vpAssert("C19.live-while-term", s.e.IsLeader() && s.cb.ctxs[0].Err() == nil)
	} else {
		vpAssert("C19.cancelled-after-term", !s.e.IsLeader() && s.cb.ctxs[0].Err() != nil)
	}
	_ = s.e.Stop()
	vpQuiesce()
	vpAssert("C19.cancelled-after-term", s.cb.ctxs[0].Err() != nil)
}
