//go:build verif

package leader

import (
	"context"
	"time"
)

// Scenario family "one instance, several terms, every cause of term end", audited for C08 (callbacks),
// C18 (status/metrics), C19 (promotion context), C05 (tokens) and C01 (mutations).

var vpC08Drain time.Duration

type vpTermScn struct {
	st    *vpStore
	kv    *vpKV
	e     *kvElection
	cb    *vpCallbacks
	m     *vpMetrics
	hc    *vpHealth
	H     time.Duration
	edges int // true->false edges of the flag
	ups   int // false->true edges
	wasL  bool
	demoteBeforeEdge bool
}

func vpTermInstance(H time.Duration, viaFollower bool, blockOnCtx bool, mod func(cfg *ElectionConfig)) *vpTermScn {
	s := &vpTermScn{H: H}
	s.st = vpNewStore("g", 0)
	s.st.dialect = vpDialectNATS
	if viaFollower {
		s.st.write("env:old", "create", vpRecMk("old", "tok-old", 0), false, 0)
	}
	s.kv = vpHandle(s.st, "a")
	cfg := vpBaseConfig("a", H, 3*H)
	cfg.ValidationInterval = time.Hour
	s.m = &vpMetrics{}
	s.m.onFlag = func(v float64) {
		if s.wasL && v == 0 {
			s.edges++
			vpEvent("flag-down", vpSite())
		}
		if !s.wasL && v == 1 {
			s.ups++
		}
		s.wasL = v == 1
	}
	cfg.Metrics = s.m
	if mod != nil {
		mod(&cfg)
	}
	s.e = vpMustNew(&vpProvider{s.kv}, cfg)
	s.cb = &vpCallbacks{blockOnCtx: blockOnCtx, drain: vpC08Drain}
	s.cb.install(s.e)
	_ = s.e.Start(vpRootCtx())
	if viaFollower {
		time.Sleep(450 * time.Millisecond) // first acquisition round is over
		s.st.write("env:old", "delete", nil, true, 0)
		time.Sleep(200 * time.Millisecond)
	}
	vpQuiesce()
	vpAssert("harness.leader-after-start", s.e.IsLeader())
	return s
}

const (
	vpCauseConflict = iota // record replaced by another writer: next heartbeat conflicts
	vpCauseDeleted         // record deleted underneath
	vpCauseUnreachable     // three failing refreshes
	vpCauseValidation      // record carries a later incarnation's token, refreshes hang, validation notices
	vpCauseHealth
	vpCausePreemptSeen // replaced AND the watch notification arrives before the next heartbeat
	vpCauseDeletedSeen // deleted AND the watch notification arrives before the next heartbeat
	vpCauseStop
	vpCauseStopCtx
	vpCauseStopCtxDelete
	vpCauses
)

// endTerm applies one cause and waits until the term is over (or the horizon passes).
func (s *vpTermScn) endTerm(cause int) {
	H := s.H
	switch cause {
	case vpCauseConflict, vpCausePreemptSeen:
		s.st.noEvents = cause == vpCauseConflict
		s.st.write("env:other", "update", vpRecMk("other", "tok-other", 0), false, s.st.lastSeq)
		s.st.noEvents = false
		time.Sleep(H + H/2)
	case vpCauseDeleted:
		s.st.noEvents = true
		s.st.write("env:other", "delete", nil, true, 0)
		s.st.noEvents = false
		time.Sleep(H + H/2)
	case vpCauseDeletedSeen:
		s.st.write("env:other", "delete", nil, true, 0)
		time.Sleep(H + H/2)
	case vpCauseUnreachable:
		s.kv.faults = []int{vpFaultErr}
		s.kv.faultLeft = 3
		s.kv.faultOps = "update"
		s.kv.faultForce = true
		time.Sleep(3*H + H/2)
		s.kv.faultLeft = 0
		s.kv.faultForce = false
	case vpCauseValidation:
		s.st.noEvents = true
		s.st.write("env:a2", "update", vpRecMk("a", "tok-later", 0), false, s.st.lastSeq)
		s.st.noEvents = false
		time.Sleep(2*H + H/2)
	case vpCauseHealth:
		time.Sleep(3*H + H/2)
	case vpCauseStop:
		_ = s.e.Stop()
	case vpCauseStopCtx:
		_ = s.e.StopWithContext(context.Background(), StopOptions{WaitForDemote: true})
	case vpCauseStopCtxDelete:
		_ = s.e.StopWithContext(context.Background(), StopOptions{DeleteKey: true, WaitForDemote: true})
	}
	vpQuiesce()
}

// audit at a quiescent point outside any stop call
func (s *vpTermScn) audit(where string) {
	// C08: strict alternation starting with a promotion, one demotion per edge, balance
	for i, x := range s.cb.log {
		if i%2 == 0 {
			vpAssert("C08.alternate", x != "D")
		} else {
			vpAssert("C08.alternate", x == "D")
		}
	}
	vpAssert("C08.promote-once-per-term", s.cb.promotes == s.ups)
	vpAssert("C08.demote-once-per-edge", s.cb.demotes == s.edges)
	if s.e.IsLeader() {
		vpAssert("C08.balance-at-quiescence", s.cb.promotes-s.cb.demotes == 1)
	} else {
		vpAssert("C08.balance-at-quiescence", s.cb.promotes-s.cb.demotes == 0)
	}
	// C18: status snapshot, gauge, transition chain
	stt := s.e.Status()
	vpAssert("C18.flag-iff-state", stt.IsLeader == (stt.State == StateLeader))
	vpAssert("C18.state-documented", stt.State == StateInit || stt.State == StateCandidate || stt.State == StateLeader || stt.State == StateFollower || stt.State == StateDemoted || stt.State == StateStopped)
	if stt.IsLeader {
		vpAssert("C18.leader-snapshot", stt.LeaderID == "a" && stt.Token == s.cb.lastTok)
		if s.st.live() && s.st.writer == "a" {
			vpAssert("C18.leader-snapshot:revision", stt.Revision == s.st.lastSeq)
			vpAssert("C05.token-getters", s.e.Token() == vpRecTok(s.st.val) && stt.Token == vpRecTok(s.st.val))
		}
	}
	if s.m.gaugeSet {
		vpAssert("C18.gauge", (s.m.gauge == 1) == s.e.IsLeader())
	}
	prev := StateCandidate
	for _, tr := range s.m.transitions {
		vpAssert("C18.chain", tr[0] == prev || tr[0] == StateCandidate) // CANDIDATE right after a (re)Start
		prev = tr[1]
	}
	// C19: every promotion context is cancelled once its term is over; live while the term lasts
	for i, c := range s.cb.ctxs {
		last := i == len(s.cb.ctxs)-1
		if last && s.e.IsLeader() {
			if s.cb.blockOnCtx { // the callback is still running (it waits for the cancellation)
				vpAssert("C19.live-while-term", c.Err() == nil)
			}
		} else {
			vpAssert("C19.cancelled-after-term", c.Err() != nil)
		}
	}
	// C05: promotion argument is the token of the term's record
	if s.e.IsLeader() && s.st.live() && s.st.writer == "a" {
		vpAssert("C05.promote-arg", s.cb.lastTok == vpRecTok(s.st.val))
	}
	_ = where
}

// vpH_C08_T_causes: one term ended by each cause; optionally a second term through the follower path
// (the blocking record is removed), ended by Stop.
func vpH_C08_T_causes() { vpC08Causes(true) }

// thorough: every jitter / backoff draw symbolic
func vpH_C08_T_causes_symrand() { vpC08Causes(false) }

func vpC08Causes(fixedRand bool) {
	H := time.Second
	if fixedRand {
		vpSetOpt("rand-fixed", 1)
	}
	cause := vpChoose("cause", vpCauses)
	hc := &vpHealth{}
	cbMode := vpChoose("callback", 3) // 0: returns at once, 1: blocks on its context, 2: blocks and then needs 1.2s to wind down
	vpC08Drain = 0
	if cbMode == 2 {
		vpC08Drain = 1200 * time.Millisecond
	}
	s := vpTermInstance(H, vpChoose("via-follower", 2) == 1, cbMode >= 1, func(cfg *ElectionConfig) {
		if cause == vpCauseValidation {
			cfg.ValidationInterval = H
		}
		if cause == vpCauseHealth {
			cfg.HealthChecker = hc
			cfg.MaxConsecutiveFailures = 2
		}
	})
	s.audit("term1")
	if cause == vpCauseValidation {
		s.kv.faults = []int{vpFaultHang}
		s.kv.faultLeft = 100
		s.kv.faultOps = "update"
	}
	s.endTerm(cause)
	if cause == vpCauseHealth && s.e.IsLeader() {
		vpEndPath("health-script-kept-leader")
	}
	vpCover("C08.cause")
	if cause == vpCauseConflict || cause == vpCausePreemptSeen || cause == vpCauseDeleted || cause == vpCauseDeletedSeen {
		// C03: one heartbeat interval plus two time-outs after the change the instance has stepped down and run OnDemote
		vpAssert("C03.demote-after-change", s.cb.demotes >= 1)
	}
	if cause == vpCauseDeleted || cause == vpCauseDeletedSeen {
		vpAssert("C08.term-ended", s.cb.demotes >= 1) // the vacancy may already have been filled by the instance itself
	} else {
		vpAssert("C08.term-ended", !s.e.IsLeader())
	}
	s.audit("after-term1")
	if cause >= vpCauseStop {
		vpAuditLog(s.st, "a", false, 0, cause == vpCauseStopCtxDelete)
		return
	}
	// second term: whoever holds the record goes away; the instance (now a follower) takes over again
	s.kv.faultLeft = 0
	s.kv.faults = nil
	s.st.write("env:cleanup", "delete", nil, true, 0)
	time.Sleep(H + 200*time.Millisecond)
	vpQuiesce()
	if !s.e.IsLeader() {
		vpEndPath("no-second-term") // vacancy filling is C06's obligation
	}
	vpCover("C08.second-term")
	s.audit("term2")
	_ = s.e.Stop()
	vpQuiesce()
	s.audit("end")
	vpAuditLog(s.st, "a", false, 0, false)
}

// vpH_C08_T_simultaneous: two demotion causes fire in the same tick: the record is taken by a later
// incarnation (same id, other token) while heartbeat and validation tickers coincide.
func vpH_C08_T_simultaneous() {
	H := time.Second
	vpSetOpt("rand-fixed", 1)
	s := vpTermInstance(H, false, true, func(cfg *ElectionConfig) { cfg.ValidationInterval = H })
	s.st.noEvents = true
	s.st.write("env:a2", "update", vpRecMk("a", "tok-later", 0), false, s.st.lastSeq)
	time.Sleep(2*H + H/2)
	vpQuiesce()
	vpCover("C08.simultaneous")
	vpAssert("C08.term-ended", !s.e.IsLeader())
	s.audit("after")
	_ = s.e.Stop()
}

// vpH_C08_T_restart: Start -> leader -> stop -> Start -> leader -> stop on the same election object (both stop
// variants in both positions), promotion callback blocking on its context.
func vpH_C08_T_restart() {
	H := time.Second
	vpSetOpt("rand-fixed", 1)
	s := vpTermInstance(H, false, true, nil)
	s.audit("term1")
	v1, v2 := vpChoose("first-stop", 2), vpChoose("second-stop", 2)
	s.endTerm(vpCauseStop + 2*v1)
	s.audit("stopped1")
	s.st.write("env:cleanup", "delete", nil, true, 0)
	_ = s.e.Start(vpRootCtx())
	time.Sleep(H + H/2)
	vpQuiesce()
	vpAssert("harness.leader-after-restart", s.e.IsLeader())
	vpCover("C08.restart")
	s.audit("term2")
	s.endTerm(vpCauseStop + 2*v2)
	time.Sleep(6 * time.Second)
	vpQuiesce()
	s.audit("stopped2")
}

// vpH_C08_T_slow_callback: the promotion callback needs 6s to wind down after its context is cancelled
// (longer than Stop's 5s wait): Stop must still deliver exactly one OnDemote.
func vpH_C08_T_slow_callback() {
	H := time.Second
	s := &vpTermScn{H: H}
	s.st = vpNewStore("g", 0)
	s.kv = vpHandle(s.st, "a")
	cfg := vpBaseConfig("a", H, 3*H)
	cfg.ValidationInterval = time.Hour
	s.m = &vpMetrics{}
	s.m.onFlag = func(v float64) {
		if s.wasL && v == 0 {
			s.edges++
		}
		if !s.wasL && v == 1 {
			s.ups++
		}
		s.wasL = v == 1
	}
	cfg.Metrics = s.m
	s.e = vpMustNew(&vpProvider{s.kv}, cfg)
	s.cb = &vpCallbacks{}
	s.cb.install(s.e)
	s.e.OnPromote(func(ctx context.Context, token string) {
		s.cb.log = append(s.cb.log, "P:"+token)
		s.cb.promotes++
		s.cb.lastTok = token
		s.cb.ctxs = append(s.cb.ctxs, ctx)
		<-ctx.Done()
		time.Sleep(6 * time.Second) // draining
	})
	_ = s.e.Start(vpRootCtx())
	vpQuiesce()
	vpAssert("harness.leader-after-start", s.e.IsLeader())
	variant := vpChoose("variant", 2)
	if variant == 0 {
		_ = s.e.Stop()
	} else {
		_ = s.e.StopWithContext(context.Background(), StopOptions{Timeout: 10 * time.Second, WaitForDemote: true})
	}
	time.Sleep(8 * time.Second)
	vpQuiesce()
	vpCover("C08.slow-callback")
	s.audit("after-stop")
}

// vpH_C08_T_restart_leftover: the application restarts the election (Stop, then Start on the same object) at
// an explorer-chosen point while a Create of the previous run's acquisition round is still on its way to the
// store (every Create takes 300 ms): the leftover Create and the new run's first Create race, and whichever
// outcome the instance settles in, promotions and demotions alternate and balance.
func vpH_C08_T_restart_leftover() {
	H := time.Second
	vpSetOpt("rand-fixed", 1)
	s := &vpTermScn{H: H}
	s.st = vpNewStore("g", 3*H)
	s.st.dialect = vpDialectNATS
	s.st.write("env:old", "create", vpRecMk("old", "tok-old", 0), false, 0)
	s.kv = vpHandle(s.st, "a")
	s.kv.latOps = "create"
	s.kv.lat = 300 * time.Millisecond
	s.kv.latMin = s.kv.lat
	cfg := vpBaseConfig("a", H, 3*H)
	cfg.ValidationInterval = time.Hour
	s.m = &vpMetrics{}
	s.m.onFlag = func(v float64) {
		if s.wasL && v == 0 {
			s.edges++
			vpEvent("flag-down", vpSite())
		}
		if !s.wasL && v == 1 {
			s.ups++
		}
		s.wasL = v == 1
	}
	cfg.Metrics = s.m
	s.e = vpMustNew(&vpProvider{s.kv}, cfg)
	s.cb = &vpCallbacks{}
	s.cb.install(s.e)
	_ = s.e.Start(vpRootCtx())
	time.Sleep(2 * time.Second) // the first acquisition round is over: follower with a watcher
	vpQuiesce()
	s.st.write("env:old", "delete", nil, true, 0)
	go func() {
		vpYieldLazy("api.restart", 600*time.Millisecond)
		_ = s.e.Stop()
		_ = s.e.Start(vpRootCtx())
		vpEvent("restarted")
	}()
	time.Sleep(4 * time.Second)
	vpQuiesce()
	vpCover("C08.restart-leftover")
	vpAssert("C02.claim-backed", vpClaimBacked(s.e, s.st, "a")) // more than a TTL after the race: a claim must be backed by a refreshed record
	s.audit("after-restart")
	_ = s.e.Stop()
	vpQuiesce()
	s.audit("stopped")
}

// vpH_C08_T_same_cause_twice: two terms of one election object, both ended by the same cause (each cause that
// leaves the instance running): the second loss of that kind is announced exactly like the first.
func vpH_C08_T_same_cause_twice() {
	H := time.Second
	vpSetOpt("rand-fixed", 1)
	cause := []int{vpCauseConflict, vpCauseValidation, vpCausePreemptSeen, vpCauseDeletedSeen, vpCauseUnreachable}[vpChoose("cause", 5)]
	hc := &vpHealth{}
	vpC08Drain = 0
	s := vpTermInstance(H, true, true, func(cfg *ElectionConfig) {
		if cause == vpCauseHealth {
			cfg.HealthChecker = hc
			cfg.MaxConsecutiveFailures = 2
		}
	})
	for term := 1; term <= 2; term++ {
		if !s.e.IsLeader() {
			vpEndPath("not-leading")
		}
		d0 := s.cb.demotes
		if cause == vpCauseValidation {
			// a later incarnation's token in the record, noticed by a validation the application asks for
			s.st.noEvents = true
			s.st.write("env:a2", "update", vpRecMk("a", "tok-later", 0), false, s.st.lastSeq)
			s.st.noEvents = false
			ok := s.e.ValidateTokenOrDemote(vpRootCtx())
			vpAssert("C04.false-means-demoted", !ok && !s.e.IsLeader())
			vpQuiesce()
		} else {
			s.endTerm(cause)
		}
		if cause == vpCauseHealth && s.e.IsLeader() && s.cb.demotes == d0 {
			vpEndPath("health-script-kept-leader")
		}
		vpAssert("C08.term-ended", s.cb.demotes >= d0+1)
		vpAssert("C04.demote-callback", vpImplies(cause == vpCauseValidation, s.cb.demotes >= d0+1))
		s.audit("after-term")
		// whoever holds the record goes away; the instance takes over again
		s.kv.faultLeft = 0
		s.kv.faults = nil
		s.kv.faultForce = false
		if !(s.st.live() && s.st.writer == "a") {
			s.st.write("env:cleanup", "delete", nil, true, 0)
		}
		time.Sleep(H + 200*time.Millisecond)
		vpQuiesce()
	}
	vpCover("C08.same-cause-twice")
	s.audit("end")
	_ = s.e.Stop()
}

// vpH_C08_T_double_start: the application calls Start a second time on an election that is running and leading
// (it gets ErrAlreadyStarted): the running term is not affected — the promotion context stays live, the record
// keeps being refreshed, no callback fires.
func vpH_C08_T_double_start() {
	H := time.Second
	vpSetOpt("rand-fixed", 1)
	s := vpTermInstance(H, vpChoose("via-follower", 2) == 1, true, nil)
	s.audit("term1")
	seq0 := s.st.lastSeq
	err := s.e.Start(vpRootCtx())
	vpAssert("harness.already-started", err == ErrAlreadyStarted)
	time.Sleep(2*H + H/2)
	vpQuiesce()
	vpCover("C08.double-start")
	vpAssert("C19.live-while-term", s.e.IsLeader() && len(s.cb.ctxs) == 1 && s.cb.ctxs[0].Err() == nil)
	vpAssert("C02.claim-backed", vpClaimBacked(s.e, s.st, "a") && s.st.lastSeq >= seq0+2)
	s.audit("after-double-start")
	_ = s.e.Stop()
	vpQuiesce()
	s.audit("end")
}

// vpH_C08_T_slow_demote_log: the leader's record is deleted; its heartbeat notices and ends the term, but the
// log sink takes up to 700 ms on the "leader_demoted" line that precedes the OnDemote call; meanwhile the
// follower-side machinery finds the vacancy and the instance starts a new term. The first term's OnDemote is
// still delivered: callbacks balance at quiescence, one demotion per lost term.
func vpH_C08_T_slow_demote_log() {
	H := time.Second
	vpSetOpt("rand-fixed", 1)
	s := vpTermInstance(H, true, false, func(cfg *ElectionConfig) {
		cfg.Logger = &vpSlowLogger{at: map[string]bool{"leader_demoted": true}, max: 700 * time.Millisecond}
	})
	s.st.noEvents = true
	s.st.write("env:other", "delete", nil, true, 0)
	s.st.noEvents = false
	time.Sleep(3 * H)
	vpQuiesce()
	vpCover("C08.slow-demote-log")
	vpAssert("C08.term-ended", s.cb.demotes >= 1)
	vpAssert("C08.demote-once-per-edge", s.cb.demotes == s.edges)
	if s.e.IsLeader() {
		vpAssert("C08.balance-at-quiescence", s.cb.promotes-s.cb.demotes == 1)
	} else {
		vpAssert("C08.balance-at-quiescence", s.cb.promotes-s.cb.demotes == 0)
	}
	_ = s.e.Stop()
	vpQuiesce()
	vpAssert("C08.balance-at-quiescence", s.cb.promotes == s.cb.demotes)
}

// vpH_C08_T_cancel_at_promotion: the caller cancels the context it passed to Start at the very moment the
// instance is being promoted (the Logger's "leader_promoted" line, written inside becomeLeader, is a scheduling
// point). Whatever the instance makes of that, a term that is announced by IsLeader / OnDemote was announced by
// OnPromote first: callbacks alternate starting with a promotion and balance after the stop.
func vpH_C08_T_cancel_at_promotion() {
	H := time.Second
	st := vpNewStore("g", 0)
	kv := vpHandle(st, "a")
	cfg := vpBaseConfig("a", H, 3*H)
	cfg.ValidationInterval = time.Hour
	cfg.Logger = &vpYieldLogger{at: map[string]bool{"leader_promoted": true}}
	e := vpMustNew(&vpProvider{kv}, cfg)
	cb := &vpCallbacks{}
	cb.install(e)
	ctx, cancel := context.WithCancel(vpRootCtx())
	go func() {
		vpYieldLazy("api.cancel", 500*time.Millisecond)
		cancel()
	}()
	_ = e.Start(ctx)
	time.Sleep(H + H/2)
	vpQuiesce()
	cancel()
	vpCover("C08.cancel-at-promotion")
	_ = e.Stop()
	vpQuiesce()
	for i, x := range cb.log {
		if i%2 == 0 {
			vpAssert("C08.alternate", x != "D")
		} else {
			vpAssert("C08.alternate", x == "D")
		}
	}
	vpAssert("C08.balance-at-quiescence", cb.promotes == cb.demotes)
}
