package main

import (
	"crypto/sha1"
	"fmt"
	"go/constant"
	"go/token"
	"go/types"
	"math"
	"math/big"
	"strings"

	"golang.org/x/tools/go/ssa"
)

func (w *World) load(t *Thread, p Ptr) Val {
	if p.o == nil {
		panic(goPanicSignal{"nil pointer dereference"})
	}
	if w.raceOn {
		w.access(t, p, false)
	}
	return getPath(p.o.v, idxs(p.path))
}
func (w *World) store(t *Thread, p Ptr, v Val) {
	if p.o == nil {
		panic(goPanicSignal{"nil pointer dereference (store)"})
	}
	if w.raceOn {
		w.access(t, p, true)
	}
	p.o.v = setPath(p.o.v, idxs(p.path), v)
}

// goPanicSignal is thrown (Go panic) by helpers to request a modelled Go-level panic.
type goPanicSignal struct{ desc string }

func (w *World) val(f *Frame, v ssa.Value) Val {
	switch c := v.(type) {
	case *ssa.Const:
		if c.Value == nil {
			return zero(c.Type())
		}
		switch c.Value.Kind() {
		case constant.Bool:
			return constant.BoolVal(c.Value)
		case constant.Int:
			if b, ok := c.Type().Underlying().(*types.Basic); ok && b.Info()&types.IsFloat != 0 {
				x, _ := constant.Float64Val(c.Value)
				return x
			}
			n, exact := constant.Int64Val(c.Value)
			if !exact {
				u, _ := constant.Uint64Val(c.Value)
				return int64(u)
			}
			return n
		case constant.Float:
			x, _ := constant.Float64Val(c.Value)
			if b, ok := c.Type().Underlying().(*types.Basic); ok && b.Info()&types.IsInteger != 0 {
				return int64(x)
			}
			return x
		case constant.String:
			return constant.StringVal(c.Value)
		}
		return Opaque{"const"}
	case *ssa.Function:
		return FuncV{fn: c}
	case *ssa.Global:
		return Ptr{o: w.global(c)}
	case *ssa.FreeVar:
		for i, fv := range f.fn.FreeVars {
			if fv == c {
				return f.binds[i]
			}
		}
	case *ssa.Builtin:
		return FuncV{intr: "builtin:" + c.Name()}
	}
	r, ok := f.regs[v]
	if !ok {
		panic(engErr("unbound " + v.Name() + " in " + f.fn.String()))
	}
	return r
}

func (w *World) global(g *ssa.Global) *Obj {
	o, ok := w.globals[g]
	if !ok {
		t := g.Type().(*types.Pointer).Elem()
		o = w.newObj(zero(t), t)
		w.globals[g] = o
		if g.Pkg == nil || g.Pkg.Pkg.Path() != leaderPkg {
			if iv, ok := w.eng.initValue(w, g); ok {
				o.v = iv
			}
		}
	}
	return o
}

func (w *World) step(t *Thread) {
	defer func() {
		if r := recover(); r != nil {
			if gp, ok := r.(goPanicSignal); ok {
				w.goPanic(t, IfaceV{typ: types.Typ[types.String], v: "runtime error: " + gp.desc}, gp.desc)
				return
			}
			panic(r)
		}
	}()
	f := t.frames[len(t.frames)-1]
	if f.rundef {
		if n := len(f.defers); n > 0 {
			d := f.defers[n-1]
			f.defers = f.defers[:n-1]
			w.invoke(t, f, nil, d.call, d.fn, d.args)
			return
		}
		f.rundef = false
		if f.panicMode {
			f.panicMode = false
			if t.panicking && !f.recovered {
				// keep unwinding
				t.frames = t.frames[:len(t.frames)-1]
				if len(t.frames) == 0 {
					w.crash(t)
					return
				}
				c := t.frames[len(t.frames)-1]
				c.rundef = true
				c.panicMode = true
				return
			}
			// recovered: function returns to its caller
			if f.fn.Recover != nil {
				f.prev, f.blk, f.pc = f.blk, f.fn.Recover, 0
				return
			}
			w.doReturn(t, f, zeroResults(f.fn))
			return
		}
		f.pc++
		return
	}
	ins := f.blk.Instrs[f.pc]
	switch i := ins.(type) {
	case *ssa.Alloc:
		et := i.Type().(*types.Pointer).Elem()
		o := w.newObj(zero(et), et)
		if i.Heap && w.raceOn && isVarComment(i.Comment) && !isHarnessFn(f.fn) {
			fnn := f.fn.Name()
			o.label = fnn + "." + i.Comment // a local variable shared with a closure / goroutine
		}
		if i.Heap && w.raceOn && i.Comment == "makeslice" && !isHarnessFn(f.fn) {
			o.label = "slice@" + f.fn.Name() // backing array made by library code: element accesses are race-checked
		}
		f.regs[i] = Ptr{o: o}
	case *ssa.Store:
		ap := w.val(f, i.Addr).(Ptr)
		w.store(t, ap, w.val(f, i.Val))
		if i.Val.Type().String() == "sync.WaitGroup" && ap.o != nil {
			// a plain overwrite of a WaitGroup (wg = sync.WaitGroup{}): the counter starts again from zero
			// while goroutines that used the old value keep using this memory
			k := key(ap)
			delete(w.wgs, k)
			delete(w.wgVC, k)
		}
	case *ssa.UnOp:
		x := w.val(f, i.X)
		switch i.Op {
		case token.MUL:
			f.regs[i] = w.load(t, x.(Ptr))
		case token.NOT:
			f.regs[i] = not(x)
		case token.SUB:
			switch n := x.(type) {
			case int64:
				bits, sg, _ := intKind(i.Type())
				f.regs[i] = normInt(-n, bits, sg)
			case float64:
				f.regs[i] = -n
			case Sym:
				if n.s == 'R' {
					f.regs[i] = symR("(- " + n.t + ")")
				} else {
					f.regs[i] = w.wrapInt(symI("(- "+n.t+")"), i.Type())
				}
			case FSpec:
				f.regs[i] = FSpec{-n.k}
			default:
				panic(engErr("neg"))
			}
		case token.XOR:
			bits, sg, _ := intKind(i.Type())
			f.regs[i] = normInt(^x.(int64), bits, sg)
		case token.ARROW:
			if !w.recv(t, f, i, x) {
				return
			}
		default:
			panic(engErr("unop " + i.Op.String()))
		}
	case *ssa.FieldAddr:
		p := w.val(f, i.X).(Ptr)
		if p.o == nil {
			panic(goPanicSignal{"nil pointer dereference (field " + fieldOf(i) + ")"})
		}
		f.regs[i] = Ptr{p.o, fmt.Sprintf("%s.%d", p.path, i.Field)}
	case *ssa.Field:
		switch sv := w.val(f, i.X).(type) {
		case StructV:
			f.regs[i] = sv.f[i.Field]
		default:
			panic(engErr(fmt.Sprintf("field of %T", sv)))
		}
	case *ssa.IndexAddr:
		idx := w.concIndex(w.val(f, i.Index))
		switch p := w.val(f, i.X).(type) {
		case Ptr:
			if p.o == nil {
				panic(goPanicSignal{"nil pointer dereference (index)"})
			}
			f.regs[i] = Ptr{p.o, fmt.Sprintf("%s.%d", p.path, idx)}
		case SliceV:
			if idx < 0 || idx >= p.hi-p.lo {
				panic(goPanicSignal{"index out of range"})
			}
			f.regs[i] = Ptr{p.o, fmt.Sprintf(".%d", p.lo+idx)}
		default:
			panic(engErr(fmt.Sprintf("indexaddr on %T", p)))
		}
	case *ssa.Index:
		idx := w.concIndex(w.val(f, i.Index))
		switch a := w.val(f, i.X).(type) {
		case ArrayV:
			f.regs[i] = a.e[idx]
		case string:
			if idx < 0 || idx >= len(a) {
				panic(goPanicSignal{"index out of range"})
			}
			f.regs[i] = int64(a[idx])
		default:
			panic(engErr(fmt.Sprintf("index on %T", a)))
		}
	case *ssa.Slice:
		f.regs[i] = w.sliceOp(t, f, i)
	case *ssa.MakeInterface:
		f.regs[i] = IfaceV{i.X.Type(), w.val(f, i.X)}
	case *ssa.ChangeInterface:
		f.regs[i] = w.val(f, i.X)
	case *ssa.ChangeType:
		f.regs[i] = w.val(f, i.X)
	case *ssa.Convert:
		f.regs[i] = w.convert(w.val(f, i.X), i.X.Type(), i.Type())
	case *ssa.BinOp:
		f.regs[i] = w.binop(t, i.Op, w.val(f, i.X), w.val(f, i.Y), i.X.Type(), i.Type())
	case *ssa.Phi:
		for k, p := range f.blk.Preds {
			if p == f.prev {
				f.regs[i] = w.val(f, i.Edges[k])
				break
			}
		}
	case *ssa.Extract:
		f.regs[i] = w.val(f, i.Tuple).(TupleV)[i.Index]
	case *ssa.MakeClosure:
		var b []Val
		for _, x := range i.Bindings {
			b = append(b, w.val(f, x))
		}
		f.regs[i] = FuncV{fn: i.Fn.(*ssa.Function), binds: b}
	case *ssa.MakeChan:
		w.nchan++
		f.regs[i] = &Chan{cap: int(w.val(f, i.Size).(int64)), id: w.nchan}
	case *ssa.MakeMap:
		f.regs[i] = &MapV{m: map[string]Val{}}
	case *ssa.MakeSlice:
		n := int(w.val(f, i.Len).(int64))
		et := i.Type().Underlying().(*types.Slice).Elem()
		if b, ok := et.Underlying().(*types.Basic); ok && b.Kind() == types.Uint8 {
			f.regs[i] = BytesV{&Rec{empty: n == 0, name: "raw"}}
			break
		}
		capN := n
		if i.Cap != nil {
			if c, ok := w.val(f, i.Cap).(int64); ok && int(c) > n {
				capN = int(c)
			}
		}
		av := ArrayV{}
		for k := 0; k < capN; k++ {
			av.e = append(av.e, zero(et))
		}
		o := w.newObj(av, nil)
		if w.raceOn && !isHarnessFn(f.fn) {
			o.label = "slice@" + f.fn.Name() // backing array made by library code: accesses are race-checked
		}
		f.regs[i] = SliceV{o, 0, n}
	case *ssa.MapUpdate:
		m := w.val(f, i.Map).(*MapV)
		if m == nil {
			panic(goPanicSignal{"assignment to entry in nil map"})
		}
		k := mapKey(w.val(f, i.Key))
		if _, ok := m.m[k]; !ok {
			m.keys = append(m.keys, k)
		}
		m.m[k] = w.val(f, i.Value)
	case *ssa.Lookup:
		f.regs[i] = w.lookup(f, i)
	case *ssa.TypeAssert:
		f.regs[i] = w.typeAssert(i, w.val(f, i.X))
	case *ssa.Send:
		ch := w.val(f, i.Chan).(*Chan)
		if ch == nil {
			t.waitWhat = "send on nil chan"
			t.ready = func() bool { return false }
			return
		}
		if ch.closed {
			panic(goPanicSignal{"send on closed channel"})
		}
		if !chanCanSend(ch) {
			t.waitWhat = "chan send"
			t.ready = func() bool { return chanCanSend(ch) || ch.closed }
			return
		}
		w.chanPut(t, ch, w.val(f, i.X))
	case *ssa.Select:
		if !w.selectOp(t, f, i) {
			return
		}
	case *ssa.Go:
		fnv, args := w.callee(t, f, i.Call)
		if fnv.intr != "" || fnv.fn == nil || len(fnv.fn.Blocks) == 0 || w.eng.isIntrinsic(fnv.fn) {
			// go on an intrinsic: run a tiny wrapper thread is not needed in scope
			panic(engErr("go on intrinsic " + fnv.intr + fmt.Sprint(fnv.fn)))
		}
		nt := w.spawn(fnv, args, fnName(fnv), t)
		nt.lib = !strings.HasPrefix(f.fn.Name(), "vp") || t.lib
	case *ssa.Defer:
		fnv, args := w.callee(t, f, i.Call)
		f.defers = append(f.defers, deferred{fnv, args, i.Call})
	case *ssa.RunDefers:
		f.rundef = true
		return
	case *ssa.Call:
		fnv, args := w.callee(t, f, i.Call)
		w.invoke(t, f, i, i.Call, fnv, args)
		return
	case *ssa.If:
		f.prev = f.blk
		side := w.truth(w.val(f, i.Cond))
		if w.infeas {
			t.done = true
			return
		}
		if side {
			f.blk = f.blk.Succs[0]
		} else {
			f.blk = f.blk.Succs[1]
		}
		f.pc = 0
		w.loopCheck(t, f)
		return
	case *ssa.Jump:
		f.prev, f.blk, f.pc = f.blk, f.blk.Succs[0], 0
		w.loopCheck(t, f)
		return
	case *ssa.Return:
		var rv Val
		if len(i.Results) == 1 {
			rv = w.val(f, i.Results[0])
		} else if len(i.Results) > 1 {
			tv := TupleV{}
			for _, r := range i.Results {
				tv = append(tv, w.val(f, r))
			}
			rv = tv
		}
		w.doReturn(t, f, rv)
		return
	case *ssa.Panic:
		x := w.val(f, i.X)
		w.goPanic(t, x, "panic: "+describe(x))
		return
	case *ssa.Range:
		m, _ := w.val(f, i.X).(*MapV)
		it := &MapIter{}
		if m != nil {
			it.m = m
			it.keys = append([]string(nil), m.keys...)
		}
		f.regs[i] = it
	case *ssa.Next:
		it := w.val(f, i.Iter).(*MapIter)
		if it.pos >= len(it.keys) {
			f.regs[i] = TupleV{false, "", IfaceV{}}
		} else {
			k := it.keys[it.pos]
			it.pos++
			f.regs[i] = TupleV{true, k, it.m.m[k]}
		}
	case *ssa.DebugRef:
	default:
		panic(engErr(fmt.Sprintf("unsupported %T: %s in %s", ins, ins, f.fn)))
	}
	f.pc++
}

type MapIter struct {
	m    *MapV
	keys []string
	pos  int
}

func fieldOf(i *ssa.FieldAddr) string {
	if st, ok := i.X.Type().Underlying().(*types.Pointer).Elem().Underlying().(*types.Struct); ok {
		return st.Field(i.Field).Name()
	}
	return "?"
}

func describe(v Val) string {
	if iv, ok := v.(IfaceV); ok {
		return fmt.Sprint(iv.v)
	}
	return fmt.Sprint(v)
}

func mapKey(v Val) string {
	switch k := v.(type) {
	case string:
		return k
	case int64:
		return fmt.Sprint(k)
	}
	panic(engErr(fmt.Sprintf("map key %T", v)))
}

func zeroResults(fn *ssa.Function) Val {
	res := fn.Signature.Results()
	switch res.Len() {
	case 0:
		return nil
	case 1:
		return zero(res.At(0).Type())
	}
	return zero(res)
}

func (w *World) doReturn(t *Thread, f *Frame, rv Val) {
	t.frames = t.frames[:len(t.frames)-1]
	if f.retSlot != nil {
		*f.retSlot = rv
	}
	if len(t.frames) == 0 {
		t.done = true
		if w.raceOn {
			// thread end: nothing joins automatically
		}
		return
	}
	c := t.frames[len(t.frames)-1]
	if f.ret != nil {
		c.regs[f.ret] = rv
		c.pc++
	}
}

func (w *World) loopCheck(t *Thread, f *Frame) {
	// count back-edges per frame: entering a block with index <= previous block index
	if f.prev != nil && f.blk.Index <= f.prev.Index {
		if f.loops == nil {
			f.loops = map[*ssa.BasicBlock]int{}
		}
		f.loops[f.blk]++
		if f.loops[f.blk] > w.eng.unwind {
			if strings.HasPrefix(f.fn.Name(), "vp") {
				panic(engErr("harness loop exceeds unwind bound in " + f.fn.Name()))
			}
			w.inconclusive = "unwinding bound reached in " + f.fn.String()
			w.truncate("unwind:" + f.fn.Name())
		}
	}
}

func (w *World) concIndex(v Val) int {
	switch x := v.(type) {
	case int64:
		return int(x)
	case Sym:
		return int(w.concretizeInt(v, 0, 15, "index"))
	}
	panic(engErr("index type"))
}

func (w *World) sliceOp(t *Thread, f *Frame, i *ssa.Slice) Val {
	lo, hi := -1, -1
	if i.Low != nil {
		lo = int(w.val(f, i.Low).(int64))
	}
	if i.High != nil {
		hi = int(w.val(f, i.High).(int64))
	}
	switch p := w.val(f, i.X).(type) {
	case Ptr:
		n := len(w.load(t, p).(ArrayV).e)
		if lo < 0 {
			lo = 0
		}
		if hi < 0 {
			hi = n
		}
		if p.path != "" {
			// slice of an array embedded in a struct: copy-out not supported
			panic(engErr("slice of embedded array"))
		}
		return SliceV{p.o, lo, hi}
	case SliceV:
		if lo < 0 {
			lo = 0
		}
		if hi < 0 {
			hi = p.hi - p.lo
		}
		return SliceV{p.o, p.lo + lo, p.lo + hi}
	case string:
		if lo < 0 {
			lo = 0
		}
		if hi < 0 {
			hi = len(p)
		}
		if lo > hi || hi > len(p) {
			panic(goPanicSignal{"slice bounds out of range"})
		}
		return p[lo:hi]
	case BytesV:
		return p
	case Sym:
		if p.s == 'S' {
			// s[lo:hi] on a symbolic string: out of range is a run-time panic
			if lo < 0 {
				lo = 0
			}
			if hi >= 0 {
				if w.truth(symB(fmt.Sprintf("(< (str.len %s) %d)", p.t, hi))) {
					panic(goPanicSignal{fmt.Sprintf("slice bounds out of range [:%d] with shorter string", hi)})
				}
				return symS(fmt.Sprintf("(str.substr %s %d %d)", p.t, lo, hi-lo))
			}
			if w.truth(symB(fmt.Sprintf("(< (str.len %s) %d)", p.t, lo))) {
				panic(goPanicSignal{fmt.Sprintf("slice bounds out of range [%d:]", lo)})
			}
			return symS(fmt.Sprintf("(str.substr %s %d (- (str.len %s) %d))", p.t, lo, p.t, lo))
		}
	}
	panic(engErr("slice op"))
}

func (w *World) lookup(f *Frame, i *ssa.Lookup) Val {
	x := w.val(f, i.X)
	switch m := x.(type) {
	case *MapV:
		k := mapKey(w.val(f, i.Index))
		vt := i.X.Type().Underlying().(*types.Map).Elem()
		if m == nil {
			if i.CommaOk {
				return TupleV{zero(vt), false}
			}
			return zero(vt)
		}
		if m.json != nil {
			return w.jsonLookup(m.json, k, i.CommaOk)
		}
		v, ok := m.m[k]
		if !ok {
			v = zero(vt)
		}
		if i.CommaOk {
			return TupleV{v, ok}
		}
		return v
	case string:
		idx := w.concIndex(w.val(f, i.Index))
		if idx < 0 || idx >= len(m) {
			panic(goPanicSignal{"index out of range"})
		}
		return int64(m[idx])
	}
	panic(engErr(fmt.Sprintf("lookup on %T", x)))
}

func (w *World) typeAssert(i *ssa.TypeAssert, xv Val) Val {
	x := xv.(IfaceV)
	if jf, ok := x.v.(JSONField); ok {
		// dynamic type of a JSON member is symbolic; only string assertions are in scope
		if b, okb := i.AssertedType.Underlying().(*types.Basic); okb && b.Kind() == types.String {
			isStr := w.truth(w.recFn(jf.r, "mIsStr_"+jf.f, "Bool"))
			if isStr {
				if i.CommaOk {
					return TupleV{w.recFn(jf.r, "mStr_"+jf.f, "String"), true}
				}
				return w.recFn(jf.r, "mStr_"+jf.f, "String")
			}
			if i.CommaOk {
				return TupleV{"", false}
			}
			panic(goPanicSignal{"interface conversion: interface {} is not string (JSON member " + jf.f + ")"})
		}
		if b, okb := i.AssertedType.Underlying().(*types.Basic); okb && b.Kind() == types.Float64 && jf.f == "priority" {
			if w.truth(w.recFn(jf.r, "mIsNum_priority", "Bool")) {
				if i.CommaOk {
					return TupleV{w.recFn(jf.r, "mNum_priority", "Real"), true}
				}
				return w.recFn(jf.r, "mNum_priority", "Real")
			}
			if i.CommaOk {
				return TupleV{float64(0), false}
			}
			panic(goPanicSignal{"interface conversion: interface {} is not float64 (JSON member priority)"})
		}
		panic(engErr("type assertion on JSON member to " + i.AssertedType.String()))
	}
	ok := false
	if x.typ != nil {
		if types.IsInterface(i.AssertedType) {
			if _, isCtx := x.v.(*Ctx); isCtx {
				ok = types.Identical(i.AssertedType, w.eng.ctxType) || i.AssertedType.Underlying().(*types.Interface).NumMethods() == 0
			} else {
				ok = types.Implements(x.typ, i.AssertedType.Underlying().(*types.Interface))
			}
		} else {
			ok = types.Identical(x.typ, i.AssertedType)
		}
	}
	var v Val
	if ok {
		if types.IsInterface(i.AssertedType) {
			v = x
		} else {
			v = x.v
		}
	} else {
		v = zero(i.AssertedType)
	}
	if i.CommaOk {
		return TupleV{v, ok}
	}
	if !ok {
		tn := "nil"
		if x.typ != nil {
			tn = x.typ.String()
		}
		panic(goPanicSignal{"interface conversion: " + tn + " is not " + i.AssertedType.String()})
	}
	return v
}

// ---------- channels ----------
func chanCanSend(ch *Chan) bool {
	if ch.cap == 0 {
		return ch.recvWaiting > 0 && len(ch.buf) == 0
	}
	return len(ch.buf) < ch.cap
}
func (w *World) chanPut(t *Thread, ch *Chan, v Val) {
	ch.buf = append(ch.buf, v)
	if w.raceOn {
		t.vc = t.vc.tick(t.id)
		ch.vc = ch.vc.join(t.vc)
	}
}
func (w *World) chanTake(t *Thread, ch *Chan, zt types.Type) (Val, bool) {
	if w.raceOn {
		t.vc = t.vc.join(ch.vc).tick(t.id)
	}
	if len(ch.buf) > 0 {
		v := ch.buf[0]
		ch.buf = ch.buf[1:]
		return v, true
	}
	return zero(zt), false
}

func (w *World) recv(t *Thread, f *Frame, i *ssa.UnOp, x Val) bool {
	ch := x.(*Chan)
	if ch == nil {
		t.waitWhat = "recv on nil chan"
		t.ready = func() bool { return false }
		return false
	}
	w.poll(ch)
	if w.infeas {
		t.done = true
		return false
	}
	if len(ch.buf) == 0 && !ch.closed {
		t.waitCh = []*Chan{ch}
		t.waitWhat = "chan recv"
		ch.recvWaiting++
		t.ready = func() bool { return len(ch.buf) > 0 || ch.closed }
		// on wake-up we re-execute this instruction; undo the waiting mark then
		f.regs[waitMark{i}] = true
		return false
	}
	if _, was := f.regs[waitMark{i}]; was {
		delete(f.regs, waitMark{i})
		ch.recvWaiting--
	}
	v, ok := w.chanTake(t, ch, i.X.Type().Underlying().(*types.Chan).Elem())
	if i.CommaOk {
		f.regs[i] = TupleV{v, ok}
	} else {
		f.regs[i] = v
	}
	return true
}

type waitMark struct{ i ssa.Instruction }

func (waitMark) Name() string                  { return "waitmark" }
func (waitMark) String() string                { return "waitmark" }
func (waitMark) Type() types.Type              { return nil }
func (waitMark) Parent() *ssa.Function         { return nil }
func (waitMark) Referrers() *[]ssa.Instruction { return nil }
func (waitMark) Pos() token.Pos                { return 0 }

func (w *World) selectOp(t *Thread, f *Frame, i *ssa.Select) bool {
	chans := make([]*Chan, len(i.States))
	for k, st := range i.States {
		chans[k], _ = w.val(f, st.Chan).(*Chan)
	}
	for k, st := range i.States {
		if chans[k] != nil && st.Dir == types.RecvOnly {
			w.poll(chans[k])
			if w.infeas {
				t.done = true
				return false
			}
		}
	}
	if _, was := f.regs[waitMark{i}]; was {
		delete(f.regs, waitMark{i})
		for k, st := range i.States {
			if chans[k] != nil && st.Dir == types.RecvOnly {
				chans[k].recvWaiting--
			}
		}
	}
	var ready []int
	for k, st := range i.States {
		ch := chans[k]
		if ch == nil {
			continue
		}
		if st.Dir == types.RecvOnly && (len(ch.buf) > 0 || ch.closed) {
			ready = append(ready, k)
		}
		if st.Dir == types.SendOnly && (chanCanSend(ch) || ch.closed) {
			ready = append(ready, k)
		}
	}
	if len(ready) == 0 {
		if !i.Blocking {
			res := TupleV{int64(-1), false}
			for _, st := range i.States {
				if st.Dir == types.RecvOnly {
					res = append(res, zero(st.Chan.Type().Underlying().(*types.Chan).Elem()))
				}
			}
			f.regs[i] = res
			return true
		}
		t.waitCh = nil
		for k, st := range i.States {
			if chans[k] != nil {
				t.waitCh = append(t.waitCh, chans[k])
				if st.Dir == types.RecvOnly {
					chans[k].recvWaiting++
				}
			}
		}
		f.regs[waitMark{i}] = true
		states := i.States
		t.waitWhat = "select"
		t.ready = func() bool {
			for k, st := range states {
				ch := chans[k]
				if ch != nil && ((st.Dir == types.RecvOnly && (len(ch.buf) > 0 || ch.closed)) || (st.Dir == types.SendOnly && (chanCanSend(ch) || ch.closed))) {
					return true
				}
			}
			return false
		}
		return false
	}
	k := ready[w.decide(len(ready), "select")]
	res := TupleV{int64(k), false}
	for j, st := range i.States {
		if st.Dir != types.RecvOnly {
			continue
		}
		var v Val = zero(st.Chan.Type().Underlying().(*types.Chan).Elem())
		if j == k {
			var ok bool
			v, ok = w.chanTake(t, chans[j], st.Chan.Type().Underlying().(*types.Chan).Elem())
			res[1] = ok
		}
		res = append(res, v)
	}
	if i.States[k].Dir == types.SendOnly {
		if chans[k].closed {
			panic(goPanicSignal{"send on closed channel"})
		}
		w.chanPut(t, chans[k], w.val(f, i.States[k].Send))
	}
	f.regs[i] = res
	return true
}

// ---------- calls ----------
func (w *World) callee(t *Thread, f *Frame, c ssa.CallCommon) (FuncV, []Val) {
	var args []Val
	if c.IsInvoke() {
		if isKVInvoke(&c) && !isHarnessFn(f.fn) {
			w.eng.noteMutSite(siteFn(f.fn) + ":" + c.Method.Name())
		}
		recv, ok := w.val(f, c.Value).(IfaceV)
		if !ok {
			panic(engErr(fmt.Sprintf("invoke on %T", w.val(f, c.Value))))
		}
		if recv.typ == nil {
			panic(goPanicSignal{"nil pointer dereference (method " + c.Method.Name() + " on nil interface)"})
		}
		for _, a := range c.Args {
			args = append(args, w.val(f, a))
		}
		if cx, ok := recv.v.(*Ctx); ok {
			return FuncV{intr: "ctx." + c.Method.Name(), data: cx}, args
		}
		if op, ok := recv.v.(Opaque); ok && strings.HasPrefix(op.what, "stdlib:") {
			return FuncV{intr: op.what + "." + c.Method.Name()}, args
		}
		m := w.prog.LookupMethod(recv.typ, c.Method.Pkg(), c.Method.Name())
		if m == nil {
			panic(engErr("no method " + c.Method.Name() + " on " + recv.typ.String()))
		}
		return FuncV{fn: m}, append([]Val{recv.v}, args...)
	}
	for _, a := range c.Args {
		args = append(args, w.val(f, a))
	}
	fv, ok := w.val(f, c.Value).(FuncV)
	if !ok {
		panic(engErr(fmt.Sprintf("call of %T", w.val(f, c.Value))))
	}
	if fv.fn == nil && fv.intr == "" {
		panic(goPanicSignal{"nil pointer dereference (call of nil func)"})
	}
	return fv, args
}

func (w *World) invoke(t *Thread, f *Frame, call *ssa.Call, c ssa.CallCommon, fnv FuncV, args []Val) {
	if fnv.intr == "" && fnv.fn != nil {
		if r, ok := w.eng.redirect[fnv.fn.String()]; ok {
			fnv = FuncV{fn: r}
		}
	}
	if fnv.intr == "" && fnv.fn != nil && len(fnv.fn.Blocks) > 0 && !w.eng.isIntrinsic(fnv.fn) {
		w.pushCall(t, fnv, args, call)
		return
	}
	res, blocked := w.intrinsic(t, f, fnv, args, &c)
	if blocked {
		return
	}
	if call != nil {
		f.regs[call] = res
		f.pc++
	}
}

// ---------- conversions and arithmetic ----------
func (w *World) convert(x Val, from, to types.Type) Val {
	tb, _ := to.Underlying().(*types.Basic)
	fb, _ := from.Underlying().(*types.Basic)
	switch n := x.(type) {
	case int64:
		if tb != nil && tb.Info()&types.IsFloat != 0 {
			if fb != nil && (fb.Kind() == types.Uint64 || fb.Kind() == types.Uint) && n < 0 {
				return float64(uint64(n))
			}
			return float64(n)
		}
		if tb != nil && tb.Info()&types.IsInteger != 0 {
			bits, sg, _ := intKind(to)
			return normInt(n, bits, sg)
		}
		if tb != nil && tb.Info()&types.IsString != 0 {
			return string(rune(n))
		}
		return n
	case float64:
		if tb != nil && tb.Info()&types.IsInteger != 0 {
			if math.IsNaN(n) || n >= 9.223372036854775807e18 || n < -9.223372036854775808e18 {
				return int64(math.MinInt64) // amd64 result for out-of-range conversions
			}
			bits, sg, _ := intKind(to)
			return normInt(int64(n), bits, sg)
		}
		return n
	case FSpec:
		if tb != nil && tb.Info()&types.IsInteger != 0 {
			return int64(math.MinInt64)
		}
		return n
	case Sym:
		if n.s == 'I' && tb != nil && tb.Info()&types.IsFloat != 0 {
			if !w.floatRounding {
				return symR("(to_real " + n.t + ")")
			}
			// exact IEEE conversion of a 64-bit integer: values up to 2^53 in magnitude are exact; above, the
			// result is the nearest multiple of 2^s (s = 1..10 by magnitude; either neighbour on a tie)
			k := fmt.Sprintf("%x", sha1.Sum([]byte("conv:"+n.t)))[:14]
			f, m := "cvf_"+k, "cvm_"+k
			if !w.declared[f] {
				w.declared[f] = true
				w.s.send("(declare-const " + f + " Real)")
				w.s.send("(declare-const " + m + " Int)")
				ax := "(ite (>= " + n.t + " 0) " + n.t + " (- " + n.t + "))"
				var cases []string
				cases = append(cases, "(and (<= "+ax+" 9007199254740992) (= "+f+" (to_real "+n.t+")))")
				for s := 1; s <= 11; s++ {
					lo, hi, p := pow2(52+s), pow2(53+s), pow2(s)
					if w.s.check("(> "+ax+" "+lo+")") == "unsat" {
						break // the value cannot be that large under the current path condition
					}
					cases = append(cases, fmt.Sprintf("(and (> %s %s) (<= %s %s) (= %s (to_real (* %s %s))) (<= (* 2 (ite (>= (- %s (* %s %s)) 0) (- %s (* %s %s)) (- (* %s %s) %s))) %s))",
						ax, lo, ax, hi, f, m, p, n.t, m, p, n.t, m, p, m, p, n.t, p))
				}
				w.s.send("(assert (or " + strings.Join(cases, " ") + "))")
			}
			return symR(f)
		}
		if n.s == 'R' && tb != nil && tb.Info()&types.IsInteger != 0 {
			// out of int64 range (incl. rounding up to 2^63): amd64 yields MinInt64
			inRange := symB("(and (< " + n.t + " 9223372036854775808.0) (>= " + n.t + " (- 9223372036854775808.0)))")
			if !w.truth(inRange) {
				return int64(math.MinInt64)
			}
			return symI("(ite (>= " + n.t + " 0.0) (to_int " + n.t + ") (- (to_int (- " + n.t + "))))")
		}
		if n.s == 'I' && tb != nil && tb.Info()&types.IsInteger != 0 {
			fbits, fsg, _ := intKind(from)
			tbits, tsg, _ := intKind(to)
			if fbits == tbits && fsg == tsg || (tbits == 64 && tsg && (fbits < 64 || fsg)) {
				return n
			}
			return w.wrapInt(n, to)
		}
		return n
	case string:
		if _, ok := to.Underlying().(*types.Slice); ok {
			return BytesV{&Rec{name: "raw:" + n, empty: n == ""}}
		}
		return n
	case BytesV:
		if tb != nil && tb.Info()&types.IsString != 0 {
			if n.r != nil && strings.HasPrefix(n.r.name, "raw:") {
				return strings.TrimPrefix(n.r.name, "raw:")
			}
			return Opaque{"string(bytes)"}
		}
		return n
	}
	return x
}

// wrapInt normalises a symbolic integer term into the range of type t when it can leave it.
func (w *World) wrapInt(s Sym, t types.Type) Val {
	bits, sg, ok := intKind(t)
	if !ok {
		return s
	}
	lo, hi := rangeOf(bits, sg)
	if w.s.check("(or (< "+s.t+" "+lo+") (> "+s.t+" "+hi+"))") == "unsat" {
		return s
	}
	mod := new(strings.Builder)
	two := fmt.Sprintf("%s", pow2(bits))
	if sg {
		half := pow2(bits - 1)
		fmt.Fprintf(mod, "(- (mod (+ %s %s) %s) %s)", s.t, half, two, half)
	} else {
		fmt.Fprintf(mod, "(mod %s %s)", s.t, two)
	}
	return symI(mod.String())
}
func pow2(n int) string { return new(big.Int).Lsh(big.NewInt(1), uint(n)).String() }

func cmpTerm(op token.Token, ta, tb string) Val {
	switch op {
	case token.LSS:
		return symB("(< " + ta + " " + tb + ")")
	case token.LEQ:
		return symB("(<= " + ta + " " + tb + ")")
	case token.GTR:
		return symB("(> " + ta + " " + tb + ")")
	case token.GEQ:
		return symB("(>= " + ta + " " + tb + ")")
	case token.EQL:
		return symB("(= " + ta + " " + tb + ")")
	case token.NEQ:
		return symB("(not (= " + ta + " " + tb + "))")
	}
	return nil
}

func isSymS(v Val) bool { s, ok := v.(Sym); return ok && s.s == 'S' }

func toPStr(v Val) (PStr, bool) {
	switch x := v.(type) {
	case PStr:
		return x, true
	case string:
		if x == "" {
			return PStr{}, true
		}
		return PStr{[]interface{}{x}}, true
	case Sym:
		if x.s == 'S' {
			return PStr{[]interface{}{x}}, true
		}
	}
	return PStr{}, false
}

func (w *World) binop(t *Thread, op token.Token, a, b Val, ot, rt types.Type) Val {
	_, pa := a.(PStr)
	_, pb := b.(PStr)
	if pa || pb || (op == token.ADD && (isSymS(a) || isSymS(b))) {
		x, ok1 := toPStr(a)
		y, ok2 := toPStr(b)
		if ok1 && ok2 {
			switch op {
			case token.ADD:
				return PStr{append(append([]interface{}(nil), x.parts...), y.parts...)}
			case token.EQL, token.NEQ:
				// only comparisons with a text that is certainly non-empty against "" are decided
				nonEmpty := func(p PStr) bool {
					for _, q := range p.parts {
						if s, ok := q.(string); ok && s != "" {
							return true
						}
						if _, ok := q.(opaqueNum); ok {
							return true
						}
					}
					return false
				}
				if (len(x.parts) == 0 && nonEmpty(y)) || (len(y.parts) == 0 && nonEmpty(x)) {
					return op == token.NEQ
				}
			}
		}
		panic(engErr("string operation " + op.String() + " on partially symbolic text"))
	}
	if fa, ok := a.(FSpec); ok {
		return w.fspecOp(op, fa, b, true)
	}
	if fb, ok := b.(FSpec); ok {
		return w.fspecOp(op, fb, a, false)
	}
	sa, aSym := a.(Sym)
	sb, bSym := b.(Sym)
	if aSym || bSym {
		sort := sa.s
		if !aSym {
			sort = sb.s
		}
		if sort == 'S' {
			if cs, ok := b.(string); ok && aSym {
				w.noteStrConst(sa, cs)
			}
			if cs, ok := a.(string); ok && bSym {
				w.noteStrConst(sb, cs)
			}
		}
		ta, tb := term(a), term(b)
		if c := cmpTerm(op, ta, tb); c != nil && (sort != 'S' || op == token.EQL || op == token.NEQ) && sort != 'B' {
			return c
		}
		switch sort {
		case 'B':
			switch op {
			case token.EQL:
				return symB("(= " + ta + " " + tb + ")")
			case token.NEQ:
				return symB("(not (= " + ta + " " + tb + "))")
			case token.LAND, token.AND:
				return and(a, b)
			case token.LOR, token.OR:
				return or(a, b)
			}
		case 'I':
			switch op {
			case token.ADD:
				return w.wrapInt(symI("(+ "+ta+" "+tb+")"), rt)
			case token.SUB:
				return w.wrapInt(symI("(- "+ta+" "+tb+")"), rt)
			case token.MUL:
				return w.wrapInt(symI("(* "+ta+" "+tb+")"), rt)
			case token.QUO, token.REM:
				if w.truth(symB("(= " + tb + " 0)")) {
					panic(goPanicSignal{"integer divide by zero"})
				}
				if w.infeas {
					return int64(0)
				}
				// Go truncates toward zero; SMT div is Euclidean
				q := "(ite (>= " + ta + " 0) (div " + ta + " " + tb + ") (- (div (- " + ta + ") " + tb + ")))"
				if op == token.QUO {
					return w.wrapInt(symI(q), rt)
				}
				return symI("(- " + ta + " (* " + tb + " " + q + "))")
			}
		case 'R':
			var r string
			switch op {
			case token.ADD:
				r = "(+ " + ta + " " + tb + ")"
			case token.SUB:
				r = "(- " + ta + " " + tb + ")"
			case token.MUL:
				r = "(* " + ta + " " + tb + ")"
			case token.QUO:
				r = "(/ " + ta + " " + tb + ")"
			}
			if r != "" {
				return w.roundReal(r)
			}
		case 'S':
			if op == token.ADD {
				return symS("(str.++ " + ta + " " + tb + ")")
			}
		}
		panic(engErr(fmt.Sprintf("symbolic binop %s sort %c", op, sort)))
	}
	switch x := a.(type) {
	case int64:
		y, ok := b.(int64)
		if !ok {
			panic(engErr(fmt.Sprintf("binop int with %T", b)))
		}
		bits, sg, _ := intKind(ot)
		if bits == 0 {
			bits, sg = 64, true
		}
		uns := !sg && bits == 64
		switch op {
		case token.ADD:
			return normInt(x+y, bits, sg)
		case token.SUB:
			return normInt(x-y, bits, sg)
		case token.MUL:
			return normInt(x*y, bits, sg)
		case token.QUO:
			if y == 0 {
				panic(goPanicSignal{"integer divide by zero"})
			}
			if uns {
				return int64(uint64(x) / uint64(y))
			}
			return normInt(x/y, bits, sg)
		case token.REM:
			if y == 0 {
				panic(goPanicSignal{"integer divide by zero"})
			}
			if uns {
				return int64(uint64(x) % uint64(y))
			}
			return x % y
		case token.AND:
			return x & y
		case token.OR:
			return x | y
		case token.XOR:
			return normInt(x^y, bits, sg)
		case token.AND_NOT:
			return x &^ y
		case token.SHL:
			rb, rs, _ := intKind(rt)
			return normInt(x<<uint64(y), rb, rs)
		case token.SHR:
			if uns {
				return int64(uint64(x) >> uint64(y))
			}
			return x >> uint64(y)
		case token.LSS:
			if uns {
				return uint64(x) < uint64(y)
			}
			return x < y
		case token.LEQ:
			if uns {
				return uint64(x) <= uint64(y)
			}
			return x <= y
		case token.GTR:
			if uns {
				return uint64(x) > uint64(y)
			}
			return x > y
		case token.GEQ:
			if uns {
				return uint64(x) >= uint64(y)
			}
			return x >= y
		case token.EQL:
			return x == y
		case token.NEQ:
			return x != y
		}
	case float64:
		y := b.(float64)
		var r float64
		switch op {
		case token.ADD:
			r = x + y
		case token.SUB:
			r = x - y
		case token.MUL:
			r = x * y
		case token.QUO:
			r = x / y
		case token.LSS:
			return x < y
		case token.LEQ:
			return x <= y
		case token.GTR:
			return x > y
		case token.GEQ:
			return x >= y
		case token.EQL:
			return x == y
		case token.NEQ:
			return x != y
		default:
			panic(engErr("float op"))
		}
		if math.IsNaN(r) {
			return FSpec{0}
		}
		if math.IsInf(r, 1) {
			return FSpec{1}
		}
		if math.IsInf(r, -1) {
			return FSpec{-1}
		}
		return r
	case string:
		y := b.(string)
		switch op {
		case token.EQL:
			return x == y
		case token.NEQ:
			return x != y
		case token.ADD:
			return x + y
		case token.LSS:
			return x < y
		case token.GTR:
			return x > y
		case token.LEQ:
			return x <= y
		case token.GEQ:
			return x >= y
		}
	case bool:
		switch op {
		case token.EQL:
			return x == b.(bool)
		case token.NEQ:
			return x != b.(bool)
		case token.LAND, token.AND:
			return x && b.(bool)
		case token.LOR, token.OR:
			return x || b.(bool)
		}
	default:
		eq := w.valEq(a, b)
		if op == token.EQL {
			return eq
		}
		if op == token.NEQ {
			return not(eq)
		}
	}
	panic(engErr(fmt.Sprintf("binop %s on %T,%T", op, a, b)))
}

// valEq: Go == on non-basic values; may return a symbolic Bool.
func (w *World) valEq(a, b Val) Val {
	switch x := a.(type) {
	case IfaceV:
		y, ok := b.(IfaceV)
		if !ok {
			panic(engErr(fmt.Sprintf("iface == %T", b)))
		}
		if x.typ == nil || y.typ == nil {
			return x.typ == nil && y.typ == nil
		}
		if _, c1 := x.v.(*Ctx); c1 {
			return x.v == y.v
		}
		if !types.Identical(x.typ, y.typ) {
			return false
		}
		return w.valEq(x.v, y.v)
	case Ptr:
		y := b.(Ptr)
		return x.o == y.o && x.path == y.path
	case FuncV:
		y := b.(FuncV)
		if (x.fn == nil && x.intr == "") || (y.fn == nil && y.intr == "") {
			return (x.fn == nil && x.intr == "") == (y.fn == nil && y.intr == "")
		}
		panic(engErr("func comparison"))
	case *Chan:
		return x == b.(*Chan)
	case *MapV:
		return x == b.(*MapV)
	case SliceV:
		return x.o == nil && b.(SliceV).o == nil
	case BytesV:
		return x.r == nil && b.(BytesV).r == nil
	case *Ctx:
		return x == b
	case StructV:
		y := b.(StructV)
		var acc Val = true
		for i := range x.f {
			acc = and(acc, w.valEq(x.f[i], y.f[i]))
		}
		return acc
	case TimeV:
		return w.valEq(x.ns, b.(TimeV).ns)
	case int64, string, bool, float64, Sym:
		if isSym(a) || isSym(b) {
			return symB("(= " + term(a) + " " + term(b) + ")")
		}
		return a == b
	case Opaque:
		return false
	}
	panic(engErr(fmt.Sprintf("valEq %T", a)))
}

// roundReal applies the relative rounding-error model when enabled.
func (w *World) roundReal(exact string) Val {
	if !w.floatRounding {
		return symR(exact)
	}
	// deterministic rounding model: fl(x) = x*(1+d_x), |d_x| <= 2^-53, one d per distinct exact term, so that
	// recomputing the same expression yields the identical term
	d := fmt.Sprintf("fpd_%x", sha1.Sum([]byte(exact)))[:18]
	if !w.declared[d] {
		w.declared[d] = true
		w.s.send("(declare-const " + d + " Real)")
		w.s.send(fmt.Sprintf("(assert (and (<= (- (/ 1.0 9007199254740992.0)) %s) (<= %s (/ 1.0 9007199254740992.0))))", d, d))
	}
	return symR("(* " + exact + " (+ 1.0 " + d + "))")
}

// fspecOp: arithmetic/comparison with ±Inf / NaN on one side.
func (w *World) fspecOp(op token.Token, s FSpec, o Val, specLeft bool) Val {
	if s.k == 0 { // NaN
		switch op {
		case token.LSS, token.LEQ, token.GTR, token.GEQ, token.EQL:
			return false
		case token.NEQ:
			return true
		}
		return FSpec{0}
	}
	if os, ok := o.(FSpec); ok {
		if os.k == 0 {
			return w.fspecOp(op, os, s, !specLeft)
		}
		l, r := s.k, os.k
		if !specLeft {
			l, r = r, l
		}
		switch op {
		case token.ADD:
			if l == r {
				return FSpec{l}
			}
			return FSpec{0}
		case token.SUB:
			if l != r {
				return FSpec{l}
			}
			return FSpec{0}
		case token.MUL:
			return FSpec{l * r}
		case token.QUO:
			return FSpec{0}
		case token.LSS:
			return l < r
		case token.LEQ:
			return l <= r
		case token.GTR:
			return l > r
		case token.GEQ:
			return l >= r
		case token.EQL:
			return l == r
		case token.NEQ:
			return l != r
		}
	}
	// other side finite
	sign := func() int { // sign of o: -1,0,1 (forks when symbolic)
		switch x := o.(type) {
		case float64:
			switch {
			case x > 0:
				return 1
			case x < 0:
				return -1
			}
			return 0
		case Sym:
			if w.truth(symB("(> " + x.t + " 0.0)")) {
				return 1
			}
			if w.truth(symB("(< " + x.t + " 0.0)")) {
				return -1
			}
			return 0
		}
		panic(engErr("fspec operand"))
	}
	inf := s.k
	switch op {
	case token.ADD:
		return FSpec{inf}
	case token.SUB:
		if specLeft {
			return FSpec{inf}
		}
		return FSpec{-inf}
	case token.MUL:
		sg := sign()
		if sg == 0 {
			return FSpec{0}
		}
		return FSpec{inf * sg}
	case token.QUO:
		if specLeft {
			sg := sign()
			if sg == 0 {
				sg = 1
			}
			return FSpec{inf * sg}
		}
		return float64(0)
	}
	// comparisons: spec (left) op finite
	l := specLeft
	switch op {
	case token.LSS:
		return (inf < 0) == l
	case token.LEQ:
		return (inf < 0) == l
	case token.GTR:
		return (inf > 0) == l
	case token.GEQ:
		return (inf > 0) == l
	case token.EQL:
		return false
	case token.NEQ:
		return true
	}
	panic(engErr("fspec op " + op.String()))
}

func isVarComment(c string) bool {
	switch c {
	case "", "complit", "new", "slicelit", "makeslice", "varargs", "arraylit", "maplit", "append", "string", "range":
		return false
	}
	return !strings.ContainsAny(c, " .[]()")
}

// isHarnessFn: harness code (vp* functions, their closures, methods of vp* stub types) or non-library code
func isHarnessFn(fn *ssa.Function) bool {
	for p := fn; p != nil; p = p.Parent() {
		if strings.HasPrefix(p.Name(), "vp") {
			return true
		}
		if r := p.Signature.Recv(); r != nil && strings.Contains(r.Type().String(), ".vp") {
			return true
		}
	}
	return fn.Pkg == nil || fn.Pkg.Pkg.Path() != leaderPkg
}
