package main

import (
	"fmt"
	"go/types"
	"regexp"
	"sort"
	"strings"

	"golang.org/x/tools/go/ssa"
)

const epochNs = int64(946684800) * 1e9 // virtual clock starts at 2000-01-01 (as testing/synctest)

type Frame struct {
	fn      *ssa.Function
	blk     *ssa.BasicBlock
	prev    *ssa.BasicBlock
	pc      int
	regs    map[ssa.Value]Val
	binds   []Val
	defers  []deferred
	ret     *ssa.Call // call instr in the caller waiting for our result (nil for go/defer/sync)
	retSlot *Val      // for callSync
	rundef  bool
	panicMode bool
	recovered bool
	loops   map[*ssa.BasicBlock]int
}
type deferred struct {
	fn   FuncV
	args []Val
	call ssa.CallCommon
}
type Thread struct {
	id        int
	frames    []*Frame
	done      bool
	ready     func() bool // nil = runnable
	yielded   bool
	lowPrio   bool // quiescing: runs only when nothing else is enabled
	name      string
	waitCh    []*Chan
	waitTm    *Timer
	waitMu    *Mutex
	waitWhat  string
	yieldAt   string
	panicking bool
	panicVal  Val
	panicDesc string
	held      []*Mutex
	vc        VC
	stubHang  bool
	lazy      bool   // parked at a lazy yield: schedulable at store-visible points, does not hold back the clock
	lazyTm    *Timer
	lazyOps   bool // candidate only when another thread is parked at a store-operation leg (not at quiescent instants)
	lib       bool // runs library code (spawned by a `go` in non-harness code)
}

type Violation struct {
	ID     string            `json:"assert_id"`
	Site   string            `json:"site"`
	Detail string            `json:"detail,omitempty"`
	Model  map[string]string `json:"model,omitempty"`
	AltModels []map[string]string `json:"alt_models,omitempty"`
	Now    string            `json:"now,omitempty"`
}
// ResumeEv: a goroutine parked at a yield is resumed; for lazily parked ones the context is recorded so that
// the native replay releases it in the same situation (other goroutines parked at these labels, this instant)
type ResumeEv struct {
	Label  string   `json:"label"`
	Lazy   bool     `json:"lazy,omitempty"`
	Parked []string `json:"parked,omitempty"`
	At     int64    `json:"at"` // virtual ns since the start, -1 when the clock is symbolic here
}

type SchedEv struct {
	Thread string `json:"thread"`
	Label  string `json:"label"`
}

type World struct {
	eng     *Engine
	prog    *ssa.Program
	s       *Solver
	threads []*Thread
	cur     *Thread
	now     Val
	// decisions
	prefix []int
	taken  []int
	alts   [][]int
	dkinds []string
	kind   string
	infeas    bool
	truncated bool
	truncWhy  string
	inconclusive string
	covers  map[string]bool
	inputs  []string // declared input constants (for models)
	nsym    int
	timers  []*Timer
	cells   map[string]Val
	cellVC  map[string]VC
	mus     map[string]*Mutex
	wgs     map[string]int
	wgVC    map[string]VC
	onces   map[string]bool
	nobj    int
	nchan   int
	ntimer  int
	globals map[*ssa.Global]*Obj
	events  []string
	sched   []SchedEv
	viol    []Violation
	steps   int
	segs    int
	funcs   map[*ssa.Function]bool
	crashed string
	bgctx   *Ctx
	budgets map[string]int
	counts  map[string]int
	names   map[string]int
	recs    map[string]*Rec
	lockEdges map[string]string // "A->B" → site
	raceOn  bool
	races   map[string]string
	floatRounding bool
	envEpoch int
	stepBudget int
	chooseLog [][2]string
	resumes   []ResumeEv
	nAsserts  int
	witnessModel map[string]string
	strVars map[string]*strVarInfo
	declared map[string]bool
	randFixed bool
	schedFull bool
	yieldUnderLock bool
	usesRand bool
}

func (w *World) newObj(v Val, t types.Type) *Obj { w.nobj++; return &Obj{v: v, id: w.nobj, typ: t} }
func key(p Ptr) string                          { return fmt.Sprintf("%d%s", p.o.id, p.path) }

var sanRe = regexp.MustCompile(`[^A-Za-z0-9_.]`)

func (w *World) fresh(prefix string, sort string) string {
	prefix = sanRe.ReplaceAllString(prefix, "_")
	w.names[prefix]++
	n := fmt.Sprintf("%s_%d", prefix, w.names[prefix])
	if w.names[prefix] == 1 && strings.HasPrefix(prefix, "in_") {
		n = prefix
	}
	w.s.send(fmt.Sprintf("(declare-const %s %s)", n, sort))
	w.inputs = append(w.inputs, n)
	return n
}

func (w *World) decide(n int, what string) int {
	if n == 1 {
		return 0
	}
	w.kind = what
	return w.decideF(n, nil)
}

// decideF: decision among n candidates; feasible==nil means all are feasible.
func (w *World) decideF(n int, feasible func(i int) bool) int {
	kind := w.kind
	w.kind = ""
	i := len(w.taken)
	w.dkinds = append(w.dkinds, kind)
	if i < len(w.prefix) {
		d := w.prefix[i]
		w.taken = append(w.taken, d)
		w.alts = append(w.alts, nil)
		return d
	}
	var ok []int
	for k := 0; k < n; k++ {
		if feasible == nil || feasible(k) {
			ok = append(ok, k)
		}
	}
	if len(ok) == 0 {
		w.infeas = true
		w.taken = append(w.taken, 0)
		w.alts = append(w.alts, nil)
		return 0
	}
	if len(w.taken) >= w.eng.maxDecisions {
		w.truncate("decision-depth")
		w.taken = append(w.taken, ok[0])
		w.alts = append(w.alts, nil)
		return ok[0]
	}
	w.taken = append(w.taken, ok[0])
	w.alts = append(w.alts, ok[1:])
	return ok[0]
}

func (w *World) truncate(why string) {
	if !w.truncated {
		w.truncated = true
		w.truncWhy = why
	}
	for _, t := range w.threads {
		t.done = true
	}
}

func (w *World) feasible(c string) bool {
	r := w.s.check(c)
	if r == "unknown" {
		w.inconclusive = "solver unknown on branch feasibility"
		return true
	}
	return r == "sat"
}

// branch forks on a symbolic boolean.
func (w *World) branch(c Sym) bool {
	if w.kind == "" {
		w.kind = "branch"
	}
	d := w.decideF(2, func(k int) bool {
		if k == 0 {
			return w.feasible(c.t)
		}
		return w.feasible("(not " + c.t + ")")
	})
	if w.infeas {
		return false
	}
	if d == 0 {
		w.s.send("(assert " + c.t + ")")
		return true
	}
	w.s.send("(assert (not " + c.t + "))")
	return false
}

// truth resolves a bool value (forking when symbolic).
func (w *World) truth(v Val) bool {
	switch c := v.(type) {
	case bool:
		return c
	case Sym:
		return w.branch(c)
	}
	panic(engErr(fmt.Sprintf("truth of %T", v)))
}

// concretizeInt: fork a symbolic int over [lo,hi] (small ranges only).
func (w *World) concretizeInt(v Val, lo, hi int64, what string) int64 {
	if x, ok := v.(int64); ok {
		return x
	}
	s := v.(Sym)
	n := int(hi - lo + 1)
	w.kind = "concretize:" + what
	d := w.decideF(n, func(k int) bool { return w.feasible(fmt.Sprintf("(= %s %d)", s.t, lo+int64(k))) })
	if w.infeas {
		return lo
	}
	w.s.send(fmt.Sprintf("(assert (= %s %s))", s.t, smtInt(lo+int64(d))))
	return lo + int64(d)
}

// ---------- threads ----------
func (w *World) spawn(fv FuncV, args []Val, name string, parent *Thread) *Thread {
	t := &Thread{id: len(w.threads), name: name}
	if parent != nil {
		if w.raceOn {
			parent.vc = parent.vc.tick(parent.id)
			t.vc = parent.vc.copy()
		}
	}
	if w.raceOn {
		t.vc = t.vc.tick(t.id)
	}
	n := 0
	for _, o := range w.threads {
		if o.name == name || strings.HasPrefix(o.name, name+"#") {
			n++
		}
	}
	if n > 0 {
		t.name = fmt.Sprintf("%s#%d", name, n)
	}
	w.threads = append(w.threads, t)
	if len(w.threads) > w.eng.maxThreads {
		w.truncate("thread-slots")
	}
	w.pushCall(t, fv, args, nil)
	return t
}

func (w *World) pushCall(t *Thread, fv FuncV, args []Val, ret *ssa.Call) *Frame {
	fn := fv.fn
	if fn == nil || len(fn.Blocks) == 0 {
		panic(engErr("pushCall on bodyless " + fmt.Sprint(fv.fn) + fv.intr))
	}
	if len(t.frames) > w.eng.maxDepth {
		// unbounded recursion is a crash in Go (fatal stack overflow)
		w.violate(w.harnessProp()+".no-unbounded", fmt.Sprintf("unbounded recursion: call depth > %d in %s", w.eng.maxDepth, fn.String()), nil)
		w.crashed = "stack overflow (recursion bound) in " + fn.String()
		w.truncate("recursion")
		w.truncated = false
		return nil
	}
	w.funcs[fn] = true
	f := &Frame{fn: fn, blk: fn.Blocks[0], regs: make(map[ssa.Value]Val, 16), binds: fv.binds, ret: ret}
	for i, p := range fn.Params {
		if i < len(args) {
			f.regs[p] = args[i]
		}
	}
	t.frames = append(t.frames, f)
	return f
}

// callSync runs fv(args) to completion on thread t (must not block) and returns its result.
func (w *World) callSync(t *Thread, fv FuncV, args []Val) Val {
	if fv.fn == nil || len(fv.fn.Blocks) == 0 || w.eng.isIntrinsic(fv.fn) {
		res, blocked := w.intrinsic(t, t.frames[len(t.frames)-1], fv, args, nil)
		if blocked {
			panic(engErr("callSync: intrinsic blocked"))
		}
		return res
	}
	depth := len(t.frames)
	var out Val
	f := w.pushCall(t, fv, args, nil)
	if f == nil {
		return nil
	}
	f.retSlot = &out
	for len(t.frames) > depth && !t.done {
		if t.ready != nil || t.yielded {
			panic(engErr("callSync: callee blocked in " + fv.fn.String()))
		}
		w.step(t)
	}
	return out
}

func (w *World) enabled() []*Thread {
	var r, low []*Thread
	for _, t := range w.threads {
		if t.done {
			continue
		}
		if t.ready == nil || t.ready() {
			if t.lowPrio {
				low = append(low, t)
			} else {
				r = append(r, t)
			}
		}
	}
	if len(r) == 0 {
		return low
	}
	return r
}

func (w *World) allDone() bool {
	for _, t := range w.threads {
		if !t.done {
			return false
		}
	}
	return true
}

func (w *World) liveTimers() []*Timer {
	waited := map[*Timer]bool{}
	for _, th := range w.threads {
		if th.done || th.ready == nil {
			continue
		}
		if th.waitTm != nil {
			waited[th.waitTm] = true
		}
		for _, ch := range th.waitCh {
			if ch != nil && ch.tm != nil {
				waited[ch.tm] = true
			}
		}
	}
	var live []*Timer
	for _, tm := range w.timers {
		if tm.dead {
			continue
		}
		if tm.fired && tm.period == nil {
			continue
		}
		if !(waited[tm] || tm.fn != nil) {
			continue
		}
		live = append(live, tm)
	}
	return live
}

func (w *World) run() {
	for {
		if w.infeas || w.truncated || w.crashed != "" {
			return
		}
		if w.threads[0].done {
			return
		}
		en := w.enabled()
		var lz []*Thread
		for _, c := range w.threads {
			if !c.done && c.lazy && c.ready != nil && !c.ready() {
				lz = append(lz, c)
			}
		}
		if len(en) == 0 {
			var lzq []*Thread
			for _, c := range lz {
				if !c.lazyOps {
					lzq = append(lzq, c)
				}
			}
			if len(lzq) > 0 && len(w.liveTimers()) > 0 {
				// quiescent instant: a lazily parked thread (API caller, environment) may act now, or time moves on
				if d := w.decide(1+len(lzq), "lazy-or-time"); d > 0 {
					en = []*Thread{lzq[d-1]}
				}
			}
			if len(en) == 0 {
				if !w.advanceTime() {
					return
				}
				continue
			}
		}
		var t *Thread
		atYield := false
		for _, c := range en {
			if c.yieldAt != "" {
				atYield = true
			}
		}
		if atYield || w.schedFull {
			cand := en
			if atYield && !(len(en) == 1 && en[0].lazy) {
				cand = append(append([]*Thread(nil), en...), lz...)
			}
			t = cand[w.decide(len(cand), "sched")]
		} else {
			// no enabled thread is parked at a store-operation leg / callback boundary: run the woken
			// threads in creation order (reduction R1: context switches are explored at yields only)
			t = en[0]
		}
		wasLazy := t.lazy
		if t.lazy {
			t.lazy = false
			t.lazyOps = false
			if t.lazyTm != nil {
				t.lazyTm.dead = true
			}
		}
		t.ready = nil
		t.waitCh, t.waitTm, t.waitMu = nil, nil, nil
		t.yielded = false
		if t.yieldAt != "" && t.yieldAt != "quiesce" {
			ev := ResumeEv{Label: t.yieldAt, Lazy: wasLazy, At: -1}
			if n, ok := w.now.(int64); ok {
				ev.At = n - epochNs
			}
			if wasLazy {
				for _, o := range w.threads {
					if o != t && !o.done && o.yieldAt != "" && o.yieldAt != "quiesce" && !o.lazy {
						ev.Parked = append(ev.Parked, o.yieldAt)
					}
				}
			}
			w.resumes = append(w.resumes, ev)
		}
		t.yieldAt = ""
		t.lowPrio = false
		w.cur = t
		w.segs++
		for !t.done && t.ready == nil && !t.yielded && !w.infeas && !w.truncated && w.crashed == "" {
			w.step(t)
			w.steps++
			if w.steps > w.stepBudget {
				w.truncate("step-budget")
				w.inconclusive = "step budget exhausted (possible unbounded loop)"
				w.violate(w.harnessProp()+".no-unbounded", "more than "+fmt.Sprint(w.stepBudget)+" SSA steps on one path: unbounded loop?", nil)
			}
		}
		lbl := t.yieldAt
		if lbl == "" && t.ready != nil {
			lbl = "block:" + t.waitWhat
		}
		if t.done {
			lbl = "end"
		}
		w.sched = append(w.sched, SchedEv{t.name, lbl})
	}
}

// advanceTime moves the clock to the earliest live timer; false = nothing can happen any more.
func (w *World) advanceTime() bool {
	live := w.liveTimers()
	if len(live) == 0 {
		// nothing enabled, no timer: deadlock unless every thread is finished
		if !w.allDone() {
			w.reportStuck()
		}
		return false
	}
	allConc := !isSym(w.now)
	for _, tm := range live {
		if isSym(tm.at) {
			allConc = false
		}
	}
	var next *Timer
	if allConc {
		for _, tm := range live {
			if next == nil || tm.at.(int64) < next.at.(int64) || (tm.at.(int64) == next.at.(int64) && tm.id < next.id) {
				next = tm
			}
		}
		// several timers due at the same instant fire together (in creation order): firing only enables
		// threads; the order in which those run is the scheduler's decision
		if next.at.(int64) > w.now.(int64) {
			w.now = next.at
		}
		at := next.at.(int64)
		var same []*Timer
		for _, tm := range live {
			if tm != next && tm.at.(int64) == at {
				same = append(same, tm)
			}
		}
		sort.Slice(same, func(i, j int) bool { return same[i].id < same[j].id })
		w.envEpoch++
		w.fire(next)
		for _, tm := range same {
			if !tm.dead {
				w.fire(tm)
			}
		}
		return true
	} else {
		earliest := func(k int) string {
			c := "(and (>= " + term(live[k].at) + " " + term(w.now) + ")"
			for j, o := range live {
				if j != k {
					if j < k {
						c += " (< " + term(live[k].at) + " " + term(o.at) + ")"
					} else {
						c += " (<= " + term(live[k].at) + " " + term(o.at) + ")"
					}
				}
			}
			return c + ")"
		}
		// a timer already overdue (at <= now) fires at now
		overdue := func(k int) string {
			c := "(and (< " + term(live[k].at) + " " + term(w.now) + ")"
			for j := 0; j < k; j++ {
				c += " (>= " + term(live[j].at) + " " + term(w.now) + ")"
			}
			return c + ")"
		}
		w.kind = "timer-order"
		n := len(live)
		k := w.decideF(2*n, func(k int) bool {
			if k < n {
				return w.feasible(earliest(k))
			}
			return w.feasible(overdue(k - n))
		})
		if w.infeas {
			return false
		}
		if k < n {
			w.s.send("(assert " + earliest(k) + ")")
			next = live[k]
			w.now = next.at
		} else {
			w.s.send("(assert " + overdue(k-n) + ")")
			next = live[k-n]
		}
	}
	w.envEpoch++
	w.fire(next)
	return true
}

func (w *World) reportStuck() {
	var parts []string
	for _, t := range w.threads {
		if !t.done {
			parts = append(parts, t.name+":"+t.waitWhat+"@"+t.topFn())
		}
	}
	sort.Strings(parts)
	w.violate(w.harnessProp()+".no-deadlock", "no thread enabled, no timer pending: "+strings.Join(parts, "; "), nil)
}

func (t *Thread) topFn() string {
	for i := len(t.frames) - 1; i >= 0; i-- {
		return t.frames[i].fn.Name()
	}
	return "?"
}

// mutexCycle finds threads blocked forever on mutexes (self-lock or wait-for cycle).
func (w *World) mutexCycle() string {
	for _, t := range w.threads {
		if t.done || t.waitMu == nil {
			continue
		}
		seen := map[*Thread]bool{}
		cur := t
		var chain []string
		for cur != nil && cur.waitMu != nil && !cur.done {
			if seen[cur] {
				sort.Strings(chain)
				return strings.Join(chain, " -> ")
			}
			seen[cur] = true
			chain = append(chain, cur.siteShort()+" waits "+cur.waitMu.name)
			cur = cur.waitMu.w
		}
	}
	return ""
}

func (t *Thread) siteShort() string {
	var fns []string
	seen := map[string]int{}
	for _, f := range t.frames {
		n := f.fn.Name()
		if f.fn.Parent() != nil {
			n = f.fn.Parent().Name() + "$"
		}
		if strings.HasPrefix(n, "vp") {
			continue
		}
		if f.fn.Signature.Recv() != nil && strings.Contains(f.fn.Signature.Recv().Type().String(), ".vp") {
			continue // methods of harness stub types
		}
		if len(fns) > 0 && fns[len(fns)-1] == n {
			continue
		}
		seen[n]++
		if seen[n] > 2 {
			continue // recursion: keep the first two occurrences only
		}
		fns = append(fns, n)
	}
	s := strings.Join(fns, ">")
	for n, c := range seen {
		if c > 2 {
			s += fmt.Sprintf(" (%s x%d)", n, c)
			break
		}
	}
	return s
}

// poll: lazily deliver ticks that are due at the current instant (symbolic test = branch)
func (w *World) poll(ch *Chan) {
	if ch == nil {
		return
	}
	tm := ch.tm
	if tm == nil {
		return
	}
	for n := 0; !tm.dead && !w.infeas; n++ {
		if tm.fired && tm.period == nil {
			return
		}
		if n > 256 {
			panic(engErr("ticker catch-up bound"))
		}
		var due bool
		if !isSym(tm.at) && !isSym(w.now) {
			due = tm.at.(int64) <= w.now.(int64)
		} else {
			w.kind = "poll"
			due = w.branch(symB("(<= " + term(tm.at) + " " + term(w.now) + ")"))
		}
		if !due || w.infeas {
			return
		}
		w.fire(tm)
		if tm.period != nil && (isSym(tm.at) || isSym(w.now)) {
			// summarise the catch-up: next fire somewhere in (now, now+period]; phase congruence dropped
			nx := w.fresh("nx", "Int")
			w.s.send(fmt.Sprintf("(assert (and (> %s %s) (<= %s (+ %s %s))))", nx, term(w.now), nx, term(w.now), term(tm.period)))
			tm.at = symI(nx)
			return
		}
	}
}

func (w *World) fire(tm *Timer) {
	tm.fired = true
	if tm.ch == nil && tm.fn == nil {
		tm.dead = true
		return
	}
	if tm.fn != nil {
		tm.dead = true
		fv := tm.fn.(FuncV)
		if fv.intr == "deadline" {
			w.ctxCancel(fv.data.(*Ctx), "context deadline exceeded", tm.vc)
		} else {
			nt := w.spawn(fv, nil, "afterfunc:"+fnName(fv), nil)
			nt.lib = true
			if w.raceOn {
				nt.vc = tm.vc.copy().tick(nt.id)
			}
		}
		return
	}
	if len(tm.ch.buf) < tm.ch.cap {
		tm.ch.buf = append(tm.ch.buf, TimeV{w.now})
	}
	if tm.period != nil {
		tm.at = add(tm.at, tm.period)
	} else {
		tm.dead = true
	}
}

func fnName(fv FuncV) string {
	if fv.fn != nil {
		if fv.fn.Parent() != nil {
			return fv.fn.Parent().Name() + "$" + strings.TrimPrefix(fv.fn.Name(), fv.fn.Parent().Name()+"$")
		}
		return fv.fn.Name()
	}
	return fv.intr
}

func (w *World) newTimer(at Val, name string) *Timer {
	w.ntimer++
	tm := &Timer{at: at, name: name, id: w.ntimer}
	if w.raceOn && w.cur != nil {
		tm.vc = w.cur.vc.copy()
	}
	w.timers = append(w.timers, tm)
	return tm
}

// ---------- violations ----------
func (w *World) site() string {
	if w.cur == nil {
		return ""
	}
	return w.cur.siteShort()
}

func (w *World) violate(id, detail string, model map[string]string) {
	if model == nil && len(w.inputs) > 0 && !w.s.dead {
		func() {
			defer func() { recover() }()
			unk := w.s.unknown
			_, model = w.s.model("", w.inputs)
			w.s.unknown = unk
		}()
	}
	v := Violation{ID: id, Site: w.site(), Detail: detail, Model: model}
	if s, ok := w.now.(Sym); ok {
		v.Now = s.t
	} else if n, ok := w.now.(int64); ok {
		v.Now = fmt.Sprint(n - epochNs)
	}
	w.viol = append(w.viol, v)
}

// ---------- Go panics ----------
func (w *World) goPanic(t *Thread, val Val, desc string) {
	t.panicking = true
	t.panicVal = val
	t.panicDesc = desc + " in " + t.siteShort()
	if len(t.frames) == 0 {
		w.crash(t)
		return
	}
	f := t.frames[len(t.frames)-1]
	f.rundef = true
	f.panicMode = true
}

func (w *World) crash(t *Thread) {
	w.crashed = t.panicDesc
	w.violate(w.harnessProp()+".no-panic", "unrecovered Go panic: "+t.panicDesc, nil)
	for _, o := range w.threads {
		o.done = true
	}
}

func (w *World) ctxCancel(c *Ctx, err string, vc VC) {
	if c.err != "" {
		return
	}
	c.err = err
	c.done.closed = true
	if w.raceOn {
		if vc == nil && w.cur != nil {
			vc = w.cur.vc
		}
		c.vc = c.vc.join(vc)
		c.done.vc = c.done.vc.join(vc)
	}
	for _, k := range c.kids {
		w.ctxCancel(k, err, vc)
	}
}
func (w *World) newCtx(parent *Ctx) *Ctx {
	w.nchan++
	c := &Ctx{parent: parent, done: &Chan{id: w.nchan}}
	if parent != nil {
		parent.kids = append(parent.kids, c)
		c.deadline = parent.deadline
		if parent.err != "" {
			w.ctxCancel(c, parent.err, parent.vc)
		}
	}
	return c
}
func (w *World) bg() *Ctx {
	if w.bgctx == nil {
		w.bgctx = w.newCtx(nil)
	}
	return w.bgctx
}

func (w *World) mu(p Ptr) *Mutex {
	k := key(p)
	if w.mus[k] == nil {
		w.mus[k] = &Mutex{readers: map[*Thread]int{}, name: fieldName(p.o.typ, idxs(p.path))}
	}
	return w.mus[k]
}

func (w *World) noteLock(t *Thread, m *Mutex) {
	for _, h := range t.held {
		if h != m {
			e := h.name + "->" + m.name
			if _, ok := w.lockEdges[e]; !ok {
				w.lockEdges[e] = t.siteShort()
			}
		}
	}
	t.held = append(t.held, m)
}
func (w *World) noteUnlock(t *Thread, m *Mutex) {
	for i := len(t.held) - 1; i >= 0; i-- {
		if t.held[i] == m {
			t.held = append(t.held[:i], t.held[i+1:]...)
			return
		}
	}
	// unlocked by a different thread than the locker (legal for sync.Mutex): remove from whoever holds it
	for _, o := range w.threads {
		for i := len(o.held) - 1; i >= 0; i-- {
			if o.held[i] == m {
				o.held = append(o.held[:i], o.held[i+1:]...)
				return
			}
		}
	}
}
