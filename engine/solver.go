package main

import (
	"bufio"
	"fmt"
	"io"
	"math/big"
	"os"
	"os/exec"
	"strings"
	"time"
)

type Solver struct {
	cmd     *exec.Cmd
	in      io.WriteCloser
	out     *bufio.Reader
	name    string
	sat     int
	unsat   int
	unknown int
	errors  int
	dur     time.Duration
	slowest time.Duration
	log     *bufio.Writer
	dead    bool
	hardMs  int
}

func newSolver(kind string, timeoutMs int) *Solver {
	var cmd *exec.Cmd
	switch kind {
	case "cvc5":
		cmd = exec.Command("cvc5", "--incremental", "--produce-models", "--strings-exp", fmt.Sprintf("--tlimit-per=%d", timeoutMs), "--lang=smt2")
	case "z3-new":
		cmd = exec.Command("z3-new", "-in")
	default:
		kind = "z3"
		cmd = exec.Command("z3", "-in")
	}
	in, _ := cmd.StdinPipe()
	out, _ := cmd.StdoutPipe()
	cmd.Stderr = os.Stderr
	if err := cmd.Start(); err != nil {
		panic(err)
	}
	s := &Solver{cmd: cmd, in: in, out: bufio.NewReaderSize(out, 1<<16), name: kind, hardMs: 2*timeoutMs + 3000}
	if p := os.Getenv("GOSYM_SMTLOG"); p != "" {
		if f, err := os.Create(p); err == nil {
			s.log = bufio.NewWriter(f)
		}
	}
	if kind != "cvc5" {
		s.send("(set-option :produce-models true)")
		s.send(fmt.Sprintf("(set-option :timeout %d)", timeoutMs))
	} else {
		s.send("(set-logic ALL)")
	}
	return s
}
func (s *Solver) close() {
	s.in.Close()
	s.cmd.Process.Kill()
	s.cmd.Wait()
}
func (s *Solver) send(l string) {
	if s.log != nil {
		s.log.WriteString(l + "\n")
		s.log.Flush()
	}
	io.WriteString(s.in, l+"\n")
}

func (s *Solver) readAnswer() string {
	// watchdog: nlsat sometimes ignores the soft timeout; kill the process after a hard limit
	wd := time.AfterFunc(time.Duration(s.hardMs)*time.Millisecond, func() { s.dead = true; s.cmd.Process.Kill() })
	defer wd.Stop()
	for {
		line, err := s.out.ReadString('\n')
		if err != nil {
			s.dead = true
			s.unknown++
			panic(engErr("solver hung or died (hard timeout): " + err.Error()))
		}
		line = strings.TrimSpace(line)
		if line == "" {
			continue
		}
		return line
	}
}

// check returns "sat", "unsat" or "unknown" for pc ∧ extra.
func (s *Solver) check(extra string) string {
	t0 := time.Now()
	s.send("(push 1)")
	if extra != "" {
		s.send("(assert " + extra + ")")
	}
	s.send("(check-sat)")
	line := s.readAnswer()
	s.send("(pop 1)")
	d := time.Since(t0)
	s.dur += d
	if d > s.slowest {
		s.slowest = d
	}
	switch {
	case line == "sat":
		s.sat++
	case line == "unsat":
		s.unsat++
	case strings.HasPrefix(line, "(error"):
		s.errors++
		fmt.Fprintln(os.Stderr, "SOLVER ERROR:", line, "on", extra)
		line = "unknown"
	default:
		s.unknown++
		line = "unknown"
	}
	return line
}

// model: check pc ∧ extra and return values of vars (name → string form).
func (s *Solver) model(extra string, vars []string) (string, map[string]string) {
	t0 := time.Now()
	defer func() { s.dur += time.Since(t0) }()
	s.send("(push 1)")
	defer s.send("(pop 1)")
	if extra != "" {
		s.send("(assert " + extra + ")")
	}
	s.send("(check-sat)")
	line := s.readAnswer()
	if line != "sat" {
		if line == "unsat" {
			s.unsat++
		} else {
			s.unknown++
			line = "unknown"
		}
		return line, nil
	}
	s.sat++
	res := map[string]string{}
	for i := 0; i < len(vars); i += 200 {
		j := i + 200
		if j > len(vars) {
			j = len(vars)
		}
		s.send("(get-value (" + strings.Join(vars[i:j], " ") + "))")
		var sb strings.Builder
		depth := 0
		started := false
		inStr := false
		for {
			l, err := s.out.ReadString('\n')
			if err != nil {
				panic(engErr("solver died"))
			}
			sb.WriteString(l)
			for _, c := range l {
				if c == '"' {
					inStr = !inStr
				}
				if inStr {
					continue
				}
				if c == '(' {
					depth++
					started = true
				} else if c == ')' {
					depth--
				}
			}
			if started && depth <= 0 {
				break
			}
		}
		parseValues(sb.String(), res)
	}
	return "sat", res
}

// parseValues parses "((name value) (name value) ...)".
func parseValues(txt string, out map[string]string) {
	toks := sexpTokens(txt)
	pos := 0
	var parse func() interface{}
	parse = func() interface{} {
		if pos >= len(toks) {
			return nil
		}
		t := toks[pos]
		pos++
		if t == "(" {
			var l []interface{}
			for pos < len(toks) && toks[pos] != ")" {
				l = append(l, parse())
			}
			pos++
			return l
		}
		return t
	}
	top, _ := parse().([]interface{})
	for _, p := range top {
		pair, ok := p.([]interface{})
		if !ok || len(pair) != 2 {
			continue
		}
		name, _ := pair[0].(string)
		if name == "" {
			name = sexpString(pair[0])
		}
		out[name] = evalSexp(pair[1])
	}
}
func sexpString(x interface{}) string {
	switch v := x.(type) {
	case string:
		return v
	case []interface{}:
		var p []string
		for _, e := range v {
			p = append(p, sexpString(e))
		}
		return "(" + strings.Join(p, " ") + ")"
	}
	return ""
}
func sexpTokens(s string) []string {
	var toks []string
	i := 0
	for i < len(s) {
		c := s[i]
		switch {
		case c == '(' || c == ')':
			toks = append(toks, string(c))
			i++
		case c == ' ' || c == '\n' || c == '\t' || c == '\r':
			i++
		case c == '"':
			j := i + 1
			for j < len(s) {
				if s[j] == '"' {
					if j+1 < len(s) && s[j+1] == '"' {
						j += 2
						continue
					}
					break
				}
				j++
			}
			toks = append(toks, s[i:j+1])
			i = j + 1
		default:
			j := i
			for j < len(s) && !strings.ContainsRune("() \n\t\r", rune(s[j])) {
				j++
			}
			toks = append(toks, s[i:j])
			i = j
		}
	}
	return toks
}

// evalSexp evaluates numeric value expressions like (- 5), (/ 1.0 3.0) to a string.
func evalSexp(x interface{}) string {
	r, ok := ratOf(x)
	if ok {
		if r.IsInt() {
			return r.Num().String()
		}
		f, _ := r.Float64()
		return fmt.Sprintf("%v", f)
	}
	return sexpString(x)
}
func ratOf(x interface{}) (*big.Rat, bool) {
	switch v := x.(type) {
	case string:
		if v == "true" || v == "false" || strings.HasPrefix(v, "\"") {
			return nil, false
		}
		r, ok := new(big.Rat).SetString(strings.TrimSuffix(v, "?"))
		return r, ok
	case []interface{}:
		if len(v) == 0 {
			return nil, false
		}
		op, _ := v[0].(string)
		var args []*big.Rat
		for _, a := range v[1:] {
			r, ok := ratOf(a)
			if !ok {
				return nil, false
			}
			args = append(args, r)
		}
		switch {
		case op == "-" && len(args) == 1:
			return new(big.Rat).Neg(args[0]), true
		case op == "-" && len(args) == 2:
			return new(big.Rat).Sub(args[0], args[1]), true
		case op == "/" && len(args) == 2 && args[1].Sign() != 0:
			return new(big.Rat).Quo(args[0], args[1]), true
		case op == "+" && len(args) == 2:
			return new(big.Rat).Add(args[0], args[1]), true
		case op == "*" && len(args) == 2:
			return new(big.Rat).Mul(args[0], args[1]), true
		}
	}
	return nil, false
}
