package main

import (
	"crypto/sha256"
	"fmt"
	"go/types"
	"math/rand"
	"os"
	"sort"
	"strings"
	"sync"
	"time"

	"golang.org/x/tools/go/packages"
	"golang.org/x/tools/go/ssa"
	"golang.org/x/tools/go/ssa/ssautil"
)

type Engine struct {
	prog         *ssa.Program
	pkg          *ssa.Package
	fset         interface{}
	ctxType      types.Type
	errorIface   *types.Interface
	errorStringT types.Type
	wrapErrorT   types.Type
	wrapErrorsT  types.Type
	joinErrorT   types.Type
	ctxCanceled  *ssa.Global
	ctxDeadline  *ssa.Global
	redirect     map[string]*ssa.Function
	interpret    map[*ssa.Function]bool
	imu          sync.Mutex

	curHarness   string
	maxDecisions int
	maxThreads   int
	maxDepth     int
	unwind       int
	stepBudget   int
	maxPaths     int
	mutSites     map[string]bool
	jsonTypeErrT, jsonSyntaxErrT types.Type
	harnessBudget time.Duration
	solverKind   string
	timeoutMs    int
	workers      int
	seed         int64
	raceFields   []string

	omu         sync.Mutex
	obligations map[string]int
}

// ---------- store-mutation call sites (C01): static inventory vs. sites actually executed ----------

var mutMethods = map[string]bool{"Create": true, "Update": true, "Delete": true}

// isKVInvoke: an interface method call of the library's KeyValue store interface that mutates the key
func isKVInvoke(c *ssa.CallCommon) bool {
	if !c.IsInvoke() || !mutMethods[c.Method.Name()] {
		return false
	}
	n, ok := c.Value.Type().(*types.Named)
	return ok && n.Obj().Name() == "KeyValue" && n.Obj().Pkg() != nil && n.Obj().Pkg().Path() == leaderPkg
}

func siteFn(fn *ssa.Function) string {
	for fn.Parent() != nil {
		fn = fn.Parent()
	}
	return fn.Name()
}

// staticMutationSites lists "<function>:<Method>" for every KeyValue.Create/Update/Delete call in library code.
func (e *Engine) staticMutationSites() []string {
	seen := map[string]bool{}
	for fn := range ssautil.AllFunctions(e.prog) {
		if fn.Pkg == nil || fn.Pkg.Pkg.Path() != leaderPkg || isHarnessFn(fn) {
			continue
		}
		for _, b := range fn.Blocks {
			for _, in := range b.Instrs {
				if ci, ok := in.(ssa.CallInstruction); ok && isKVInvoke(ci.Common()) {
					seen[siteFn(fn)+":"+ci.Common().Method.Name()] = true
				}
			}
		}
	}
	var out []string
	for k := range seen {
		out = append(out, k)
	}
	sort.Strings(out)
	return out
}

func (e *Engine) noteMutSite(s string) {
	e.omu.Lock()
	if e.mutSites == nil {
		e.mutSites = map[string]bool{}
	}
	e.mutSites[s] = true
	e.omu.Unlock()
}

func (e *Engine) executedMutationSites() []string {
	e.omu.Lock()
	defer e.omu.Unlock()
	var out []string
	for k := range e.mutSites {
		out = append(out, k)
	}
	sort.Strings(out)
	return out
}

func (e *Engine) noteObligation(id string) {
	e.omu.Lock()
	e.obligations[id]++
	e.omu.Unlock()
}

func loadEngine(repo string, overlay map[string][]byte, tags string) (*Engine, time.Duration) {
	t0 := time.Now()
	cfg := &packages.Config{Mode: packages.LoadAllSyntax, Dir: repo, Overlay: overlay,
		BuildFlags: []string{"-tags=" + tags},
		Env:        append(os.Environ(), "GOFLAGS=-mod=readonly", "GOPROXY=off", "GOTOOLCHAIN=local+path")}
	// keep GOSUMDB/GOTOOLCHAIN as the user's so that the toolchain switch for /repo works
	var env []string
	for _, kv := range os.Environ() {
		if strings.HasPrefix(kv, "GOTOOLCHAIN=") || strings.HasPrefix(kv, "GOSUMDB=") || strings.HasPrefix(kv, "GOFLAGS=") || strings.HasPrefix(kv, "GOPROXY=") {
			continue
		}
		env = append(env, kv)
	}
	cfg.Env = append(env, "GOFLAGS=-mod=readonly", "GOPROXY=off")
	pkgs, err := packages.Load(cfg, "./leader")
	if err != nil {
		fmt.Fprintln(os.Stderr, "load error:", err)
		os.Exit(3)
	}
	if packages.PrintErrors(pkgs) > 0 {
		os.Exit(3)
	}
	prog, spkgs := ssautil.AllPackages(pkgs, ssa.InstantiateGenerics)
	prog.Build()
	e := &Engine{prog: prog, pkg: spkgs[0], redirect: map[string]*ssa.Function{}, interpret: map[*ssa.Function]bool{}, obligations: map[string]int{}}
	e.ctxType = prog.ImportedPackage("context").Pkg.Scope().Lookup("Context").Type()
	e.errorIface = types.Universe.Lookup("error").Type().Underlying().(*types.Interface)
	e.errorStringT = prog.ImportedPackage("errors").Pkg.Scope().Lookup("errorString").Type()
	if jp := prog.ImportedPackage("encoding/json"); jp != nil {
		e.jsonTypeErrT = jp.Pkg.Scope().Lookup("UnmarshalTypeError").Type()
		e.jsonSyntaxErrT = jp.Pkg.Scope().Lookup("SyntaxError").Type()
	}
	e.wrapErrorT = prog.ImportedPackage("fmt").Pkg.Scope().Lookup("wrapError").Type()
	e.wrapErrorsT = prog.ImportedPackage("fmt").Pkg.Scope().Lookup("wrapErrors").Type()
	e.joinErrorT = prog.ImportedPackage("errors").Pkg.Scope().Lookup("joinError").Type()
	e.ctxCanceled = prog.ImportedPackage("context").Var("Canceled")
	e.ctxDeadline = prog.ImportedPackage("context").Var("DeadlineExceeded")
	return e, time.Since(t0)
}

var interpPrefixes = []string{
	"errors.New", "(*errors.errorString).", "(*fmt.wrapError).", "(*fmt.wrapErrors).",
	"(*github.com/nats-io/nats.go.APIError).", "(*github.com/nats-io/nats.go.jsError).",
	"(*github.com/nats-io/nats.go.Conn).SetDisconnectHandler", "(*github.com/nats-io/nats.go.Conn).SetReconnectHandler",
	"(*github.com/nats-io/nats.go.Conn).SetClosedHandler", "(*github.com/nats-io/nats.go.Conn).SetDisconnectErrHandler",
	"(context.deadlineExceededError).",
}

// isIntrinsic: true when fn is not interpreted from its SSA.
func (e *Engine) isIntrinsic(fn *ssa.Function) bool {
	if fn.Pkg == nil {
		// synthetic wrappers (bound methods, thunks) and instantiations: interpret when they have a body
		// unless they wrap an intrinsic method (then the body calls it and the call is intercepted).
		if fn.Synthetic != "" && len(fn.Blocks) > 0 {
			s := fn.String()
			if strings.Contains(s, "sync") || strings.Contains(s, "atomic") || strings.Contains(s, "time.") {
				return true
			}
			return false
		}
		return true
	}
	p := fn.Pkg.Pkg.Path()
	if p == leaderPkg {
		return strings.HasPrefix(fn.Name(), "vp") && len(fn.Blocks) == 0
	}
	s := fn.String()
	for _, pre := range interpPrefixes {
		if strings.HasPrefix(s, pre) {
			return false
		}
	}
	return true
}

// initValue evaluates the package-level initialiser of a global (best effort; concrete only).
func (e *Engine) initValue(w *World, g *ssa.Global) (Val, bool) {
	init := g.Pkg.Func("init")
	if init == nil {
		return nil, false
	}
	for _, b := range init.Blocks {
		for _, ins := range b.Instrs {
			if st, ok := ins.(*ssa.Store); ok && st.Addr == ssa.Value(g) {
				v, ok := e.evalInit(w, init, st.Val, 0)
				return v, ok
			}
		}
	}
	return nil, false
}

func (e *Engine) evalInit(w *World, init *ssa.Function, v ssa.Value, depth int) (Val, bool) {
	if depth > 8 {
		return nil, false
	}
	switch x := v.(type) {
	case *ssa.Const:
		return w.val(&Frame{fn: init}, x), true
	case *ssa.MakeInterface:
		in, ok := e.evalInit(w, init, x.X, depth+1)
		if !ok {
			return nil, false
		}
		return IfaceV{x.X.Type(), in}, true
	case *ssa.ChangeInterface:
		return e.evalInit(w, init, x.X, depth+1)
	case *ssa.ChangeType:
		return e.evalInit(w, init, x.X, depth+1)
	case *ssa.Convert:
		in, ok := e.evalInit(w, init, x.X, depth+1)
		if !ok {
			return nil, false
		}
		return w.convert(in, x.X.Type(), x.Type()), true
	case *ssa.Call:
		if fn := x.Call.StaticCallee(); fn != nil && fn.String() == "errors.New" {
			if c, ok := x.Call.Args[0].(*ssa.Const); ok {
				return errIface(w, w.val(&Frame{fn: init}, c).(string)), true
			}
		}
		return nil, false
	case *ssa.Alloc:
		et := x.Type().(*types.Pointer).Elem()
		o := w.newObj(zero(et), et)
		for _, b := range init.Blocks {
			for _, ins := range b.Instrs {
				st, ok := ins.(*ssa.Store)
				if !ok {
					continue
				}
				if fa, ok := st.Addr.(*ssa.FieldAddr); ok && fa.X == ssa.Value(x) {
					fv, ok := e.evalInit(w, init, st.Val, depth+1)
					if !ok {
						return nil, false
					}
					o.v = setPath(o.v, []int{fa.Field}, fv)
				}
			}
		}
		return Ptr{o: o}, true
	case *ssa.UnOp:
		if g, ok := x.X.(*ssa.Global); ok {
			return getPath(w.global(g).v, nil), true
		}
	case *ssa.Global:
		return Ptr{o: w.global(x)}, true
	}
	return nil, false
}

func (e *Engine) raceTracked(field string) bool {
	for _, p := range e.raceFields {
		if strings.HasPrefix(field, p) {
			return true
		}
	}
	return false
}

// ---------- results ----------
type VGroup struct {
	ID        string            `json:"assert_id"`
	Site      string            `json:"site"`
	Detail    string            `json:"detail,omitempty"`
	Count     int               `json:"count"`
	Decisions []int             `json:"decisions"`
	Model     map[string]string `json:"model,omitempty"`
	AltModels []map[string]string `json:"alt_models,omitempty"`
	Chooses   [][2]string       `json:"chooses,omitempty"`
	Schedule  []SchedEv         `json:"schedule,omitempty"`
	Events    []string          `json:"events,omitempty"`
	Resumes   []ResumeEv        `json:"resumes,omitempty"`
	Spin      bool              `json:"spin,omitempty"`
	UsesRand  bool              `json:"uses_rand,omitempty"`
	Now       string            `json:"now,omitempty"`
}
type FuncInfo struct {
	Name string `json:"name"`
	Pos  string `json:"pos"`
	Hash string `json:"ssa_sha256_12"`
}
type PathSample struct {
	Decisions int               `json:"decisions"`
	Events    []string          `json:"events"`
	Covers    []string          `json:"covers,omitempty"`
	Model     map[string]string `json:"model,omitempty"`
	AltModels []map[string]string `json:"alt_models,omitempty"`
	Chooses   [][2]string       `json:"chooses,omitempty"`
	Schedule  []SchedEv         `json:"schedule,omitempty"`
	Vector    []int             `json:"vector,omitempty"`
	Resumes   []ResumeEv        `json:"resumes,omitempty"`
	Spin      bool              `json:"spin,omitempty"`
}
type Result struct {
	Harness      string            `json:"harness"`
	Paths        int               `json:"paths_complete"`
	PathsObl     int               `json:"paths_with_obligation"`
	Infeasible   int               `json:"paths_infeasible"`
	Truncated    int               `json:"paths_truncated_by_budget"`
	TruncWhy     map[string]int    `json:"truncation_reasons,omitempty"`
	Decisions    map[string]int    `json:"decisions_by_kind"`
	MaxDecisions int               `json:"max_decisions_on_a_path"`
	Segments     int               `json:"scheduled_segments"`
	Steps        int               `json:"ssa_instructions"`
	QSat         int               `json:"queries_sat"`
	QUnsat       int               `json:"queries_unsat"`
	QUnknown     int               `json:"queries_unknown"`
	QErrors      int               `json:"solver_errors"`
	SolverS      float64           `json:"solver_s"`
	WallS        float64           `json:"wall_s"`
	Covers       []string          `json:"covers_reached"`
	Obligations  map[string]int    `json:"obligations_checked"`
	Violations   []*VGroup         `json:"violations"`
	Inconclusive []string          `json:"inconclusive,omitempty"`
	EngineErrors []string          `json:"engine_errors,omitempty"`
	Funcs        []FuncInfo        `json:"functions_encoded"`
	LockEdges    map[string]string `json:"lock_order_edges,omitempty"`
	Races        map[string]*RaceInfo `json:"races,omitempty"`
	Samples      []PathSample      `json:"samples"`
	Witnesses    []PathSample      `json:"witnesses,omitempty"`
	PathCapHit   bool              `json:"path_cap_hit"`
	Solver       string            `json:"solver"`
}

type RaceInfo struct {
	Kind    string            `json:"kind"`
	Count   int               `json:"count"`
	Chooses [][2]string       `json:"chooses,omitempty"`
	Resumes []ResumeEv        `json:"resumes,omitempty"`
	Model   map[string]string `json:"model,omitempty"`
	Events  []string          `json:"events,omitempty"`
}

type pathOut struct {
	w   *World
	err string
}

func (e *Engine) runPath(s *Solver, fn *ssa.Function, prefix []int, wantWitness func(*World) bool) (w *World, engineErr string) {
	s.send("(push 1)")
	defer s.send("(pop 1)")
	w = &World{eng: e, prog: e.prog, s: s, prefix: prefix, now: int64(epochNs),
		cells: map[string]Val{}, cellVC: map[string]VC{}, mus: map[string]*Mutex{}, wgs: map[string]int{}, wgVC: map[string]VC{},
		onces: map[string]bool{}, globals: map[*ssa.Global]*Obj{}, funcs: map[*ssa.Function]bool{}, covers: map[string]bool{},
		budgets: map[string]int{}, counts: map[string]int{}, names: map[string]int{}, recs: map[string]*Rec{},
		lockEdges: map[string]string{}, races: map[string]string{}, stepBudget: e.stepBudget, strVars: map[string]*strVarInfo{}, declared: map[string]bool{}}
	defer func() {
		if r := recover(); r != nil {
			if ee, ok := r.(engineError); ok {
				engineErr = ee.msg
				if w.cur != nil {
					engineErr += " [at " + w.cur.siteShort() + "]"
				}
				return
			}
			panic(r)
		}
	}()
	ht := w.spawn(FuncV{fn: fn}, nil, "harness", nil)
	if init := e.pkg.Func("init"); init != nil && len(init.Blocks) > 0 {
		// package-level variables of package leader (library sentinels, harness tables): run its init first
		w.pushCall(ht, FuncV{fn: init}, nil, nil)
	}
	w.run()
	if wantWitness != nil && !w.infeas && !w.truncated && len(w.viol) == 0 && wantWitness(w) {
		func() {
			defer func() {
				if r := recover(); r != nil {
					if _, ok := r.(engineError); !ok {
						panic(r)
					}
					s.unknown-- // a witness model that cannot be produced is not an undischarged obligation
				}
			}()
			unk := s.unknown
			_, w.witnessModel = s.model("", w.inputs)
			s.unknown = unk
		}()
	}
	return w, ""
}

func (e *Engine) explore(fn *ssa.Function) *Result {
	t0 := time.Now()
	e.curHarness = fn.Name()
	e.obligations = map[string]int{}
	res := &Result{Harness: fn.Name(), TruncWhy: map[string]int{}, Decisions: map[string]int{}, LockEdges: map[string]string{}, Races: map[string]*RaceInfo{}, Solver: e.solverKind}
	var mu sync.Mutex
	cond := sync.NewCond(&mu)
	work := [][]int{{}}
	inflight := 0
	stop := false
	groups := map[string]*VGroup{}
	funcs := map[*ssa.Function]bool{}
	covers := map[string]bool{}
	incon := map[string]bool{}
	eerrs := map[string]bool{}
	witnessFor := map[string]bool{}
	rng := rand.New(rand.NewSource(e.seed))
	var wg sync.WaitGroup
	for wk := 0; wk < e.workers; wk++ {
		wg.Add(1)
		go func() {
			defer wg.Done()
			s := newSolver(e.solverKind, e.timeoutMs)
			retire := func() {
				mu.Lock()
				res.QSat += s.sat
				res.QUnsat += s.unsat
				res.QUnknown += s.unknown
				res.QErrors += s.errors
				res.SolverS += s.dur.Seconds()
				mu.Unlock()
				s.close()
			}
			defer func() { retire() }()
			for {
				mu.Lock()
				for len(work) == 0 && inflight > 0 && !stop {
					cond.Wait()
				}
				if stop || (len(work) == 0 && inflight == 0) {
					mu.Unlock()
					cond.Broadcast()
					return
				}
				p := work[len(work)-1]
				work = work[:len(work)-1]
				inflight++
				mu.Unlock()

				w, eerr := e.runPath(s, fn, p, func(w *World) bool {
					mu.Lock()
					defer mu.Unlock()
					for c := range w.covers {
						if !witnessFor[c] {
							return true
						}
					}
					return false
				})

				if s.dead {
					retire()
					s = newSolver(e.solverKind, e.timeoutMs)
				}
				mu.Lock()
				inflight--
				if w != nil {
					for i := len(p); i < len(w.taken); i++ {
						alts := w.alts[i]
						if e.seed != 0 && len(alts) > 1 {
							rng.Shuffle(len(alts), func(a, b int) { alts[a], alts[b] = alts[b], alts[a] })
						}
						for _, alt := range alts {
							np := append(append([]int(nil), w.taken[:i]...), alt)
							work = append(work, np)
						}
					}
					res.Steps += w.steps
					res.Segments += w.segs
					for f := range w.funcs {
						funcs[f] = true
					}
					for i, k := range w.dkinds {
						if i >= len(p) {
							kk := k
							if j := strings.Index(kk, ":"); j > 0 {
								kk = kk[:j]
							}
							res.Decisions[kk]++
						}
					}
					for k, v := range w.lockEdges {
						if _, ok := res.LockEdges[k]; !ok {
							res.LockEdges[k] = v
						}
					}
				}
				switch {
				case eerr != "":
					eerrs[eerr] = true
				case w.infeas:
					res.Infeasible++
				default:
					if w.inconclusive != "" {
						incon[w.inconclusive] = true
					}
					if w.truncated {
						res.Truncated++
						res.TruncWhy[w.truncWhy]++
					} else {
						res.Paths++
						if w.nAsserts > 0 {
							res.PathsObl++
						}
					}
					if len(w.taken) > res.MaxDecisions {
						res.MaxDecisions = len(w.taken)
					}
					for k, v := range w.races {
						ri := res.Races[k]
						if ri == nil {
							ri = &RaceInfo{Kind: v, Chooses: w.chooseLog, Resumes: w.resumes, Events: w.events, Model: w.witnessModel}
							res.Races[k] = ri
						}
						ri.Count++
					}
					newCover := false
					for c := range w.covers {
						if !covers[c] {
							covers[c] = true
						}
						if !witnessFor[c] && len(w.viol) == 0 && !w.truncated && w.witnessModel != nil {
							newCover = true
						}
					}
					for _, v := range w.viol {
						sig := v.ID + "|" + v.Site
						g := groups[sig]
						if g == nil {
							g = &VGroup{ID: v.ID, Site: v.Site, Detail: v.Detail, Decisions: append([]int(nil), w.taken...), Model: v.Model, AltModels: v.AltModels,
								Chooses: w.chooseLog, Schedule: w.sched, Events: w.events, Now: v.Now, Resumes: w.resumes, Spin: w.yieldUnderLock, UsesRand: w.usesRand}
							groups[sig] = g
						} else if len(w.taken) < len(g.Decisions) {
							// prefer the shortest counterexample
							g.Decisions, g.Model, g.Chooses, g.Schedule, g.Events, g.Detail, g.Now, g.Resumes, g.Spin, g.UsesRand = append([]int(nil), w.taken...), v.Model, w.chooseLog, w.sched, w.events, v.Detail, v.Now, w.resumes, w.yieldUnderLock, w.usesRand
						}
						g.Count++
					}
					if !w.truncated && (len(res.Samples) < 3 || newCover) {
						ps := PathSample{Decisions: len(w.taken), Events: w.events, Chooses: w.chooseLog}
						for c := range w.covers {
							ps.Covers = append(ps.Covers, c)
						}
						sort.Strings(ps.Covers)
						if newCover {
							// witness: a model of a path that satisfies all assertions, for native replay
							ps.Model = w.witnessModel
							ps.Schedule = w.sched
							ps.Resumes = w.resumes
							ps.Spin = w.yieldUnderLock
							ps.Vector = append([]int(nil), w.taken...)
							for c := range w.covers {
								witnessFor[c] = true
							}
							res.Witnesses = append(res.Witnesses, ps)
						}
						if len(res.Samples) < 3 {
							res.Samples = append(res.Samples, ps)
						}
					}
				}
				total := res.Paths + res.Truncated + res.Infeasible
				if total >= e.maxPaths {
					stop = true
					res.PathCapHit = true
				}
				if e.harnessBudget > 0 && time.Since(t0) > e.harnessBudget && !stop {
					// wall-clock budget of this harness used up: stop exploring it (reported as inconclusive, never as
					// a pass), keep what was found and go on with the next harness
					stop = true
					res.PathCapHit = true
					incon["time budget of the harness exhausted"] = true
				}
				if total%2000 == 0 && total > 0 {
					fmt.Fprintf(os.Stderr, "  [%s] paths=%d trunc=%d infeas=%d work=%d viol-groups=%d elapsed=%.0fs\n", fn.Name(), res.Paths, res.Truncated, res.Infeasible, len(work), len(groups), time.Since(t0).Seconds())
				}
				mu.Unlock()
				cond.Broadcast()
			}
		}()
	}
	wg.Wait()
	for c := range covers {
		res.Covers = append(res.Covers, c)
	}
	sort.Strings(res.Covers)
	for k := range incon {
		res.Inconclusive = append(res.Inconclusive, k)
	}
	sort.Strings(res.Inconclusive)
	for k := range eerrs {
		res.EngineErrors = append(res.EngineErrors, k)
	}
	sort.Strings(res.EngineErrors)
	var gk []string
	for k := range groups {
		gk = append(gk, k)
	}
	sort.Strings(gk)
	for _, k := range gk {
		res.Violations = append(res.Violations, groups[k])
	}
	if res.Violations == nil {
		res.Violations = []*VGroup{}
	}
	res.Obligations = e.obligations
	for f := range funcs {
		if f.Pkg == nil && f.Synthetic != "" {
			continue
		}
		if strings.HasPrefix(f.Name(), "vp") || (f.Parent() != nil && strings.HasPrefix(f.Parent().Name(), "vp")) {
			continue
		}
		if f.Signature.Recv() != nil && strings.Contains(f.Signature.Recv().Type().String(), ".vp") {
			continue
		}
		var sb strings.Builder
		f.WriteTo(&sb)
		h := sha256.Sum256([]byte(sb.String()))
		res.Funcs = append(res.Funcs, FuncInfo{f.String(), e.prog.Fset.Position(f.Pos()).String(), fmt.Sprintf("%x", h[:6])})
	}
	sort.Slice(res.Funcs, func(i, j int) bool { return res.Funcs[i].Name < res.Funcs[j].Name })
	res.WallS = time.Since(t0).Seconds()
	return res
}
