package main

import (
	"os"
	"crypto/sha1"
	"encoding/json"
	"fmt"
	"go/types"
	"math"
	"sort"
	"strings"
	"time"

	"golang.org/x/tools/go/ssa"
)

const leaderPkg = "github.com/ali-assar/NATS-Leader-Election/leader"

// PStr is a partially known string: concrete pieces and opaque pieces (formatted symbolic
// durations/integers, which match -?[0-9][0-9.hmsµn]*).
type PStr struct{ parts []interface{} }
type opaqueNum struct{ t string }

func (w *World) retBlock(f *Frame) {
	// advance past the call ourselves; report as blocked so invoke does not advance again
	if cl, ok := f.blk.Instrs[f.pc].(*ssa.Call); ok {
		f.regs[cl] = nil
	}
	f.pc++
}

func errIface(w *World, msg string) IfaceV {
	o := w.newObj(StructV{[]Val{msg}}, w.eng.errorStringT)
	return IfaceV{typ: types.NewPointer(w.eng.errorStringT), v: Ptr{o: o}}
}

func (w *World) recFn(r *Rec, fn string, sort string) Val {
	if r == nil || r.empty {
		switch fn {
		case "sNull":
			return false
		case "empty", "sErr", "mErr":
			return true
		case "sPrio":
			return int64(0)
		case "sID", "sTok", "mStr_id", "mStr_token":
			return ""
		}
		return false
	}
	if r.mk {
		switch fn {
		case "empty", "sErr", "mErr", "sNull":
			return false
		case "sID", "mStr_id":
			return r.id
		case "sTok", "mStr_token":
			return r.tok
		case "sPrio":
			return r.prio
		case "mHas_id", "mHas_token", "mIsStr_id", "mIsStr_token", "mIsNum_priority":
			return true
		case "mHas_priority": // `json:"priority,omitempty"`
			if p, ok := r.prio.(int64); ok {
				return p != 0
			}
			return symB("(not (= " + term(r.prio) + " 0))")
		}
		panic(engErr("recFn " + fn))
	}
	if strings.HasPrefix(r.name, "raw") {
		panic(engErr("abstract parse of raw bytes"))
	}
	n := r.name + "_" + fn
	if w.recs[n] == nil {
		w.recs[n] = r
		w.s.send(fmt.Sprintf("(declare-const %s %s)", n, sort))
		w.inputs = append(w.inputs, n)
	}
	switch sort {
	case "Bool":
		return symB(n)
	case "Int":
		return symI(n)
	case "Real":
		return symR(n)
	}
	return symS(n)
}

func (w *World) newSymRec(name string) *Rec {
	w.names["rec:"+name]++
	if k := w.names["rec:"+name]; k > 1 {
		name = fmt.Sprintf("%s_%d", name, k)
	}
	r := &Rec{name: "rec_" + name}
	e, s, m := w.recFn(r, "empty", "Bool"), w.recFn(r, "sErr", "Bool"), w.recFn(r, "mErr", "Bool")
	w.s.send(fmt.Sprintf("(assert (=> %s (and %s %s)))", term(e), term(s), term(m)))
	w.s.send(fmt.Sprintf("(assert (=> %s %s))", term(m), term(s)))
	// the JSON literal null: parses into anything without error and sets nothing
	n := w.recFn(r, "sNull", "Bool")
	w.s.send(fmt.Sprintf("(assert (=> %s (and (not %s) (not %s) (not %s) (not %s) (not %s) (= %s \"\") (= %s \"\") (= %s 0))))", term(n), term(e), term(s), term(m),
		term(w.recFn(r, "mHas_id", "Bool")), term(w.recFn(r, "mHas_token", "Bool")), term(w.recFn(r, "sID", "String")), term(w.recFn(r, "sTok", "String")), term(w.recFn(r, "sPrio", "Int"))))
	return r
}

func (w *World) jsonLookup(r *Rec, k string, commaOk bool) Val {
	if k != "id" && k != "token" && k != "priority" {
		panic(engErr("JSON map lookup of key " + k))
	}
	has := w.truth(w.recFn(r, "mHas_"+k, "Bool"))
	var v Val = IfaceV{}
	if has && k == "priority" {
		// a JSON number decodes into interface{} as float64 (nearest double of the integer a payload holds)
		if r.mk {
			v = IfaceV{typ: types.Typ[types.Float64], v: w.convert(r.prio, types.Typ[types.Int], types.Typ[types.Float64])}
		} else {
			if w.recs[r.name+"_mNum_priority"] == nil {
				num := w.recFn(r, "mNum_priority", "Real")
				// where the struct view decodes as well, both views show the same (integral) number
				w.s.send(fmt.Sprintf("(assert (=> (and %s (not %s)) (= %s (to_real %s))))", term(w.recFn(r, "mIsNum_priority", "Bool")), term(w.recFn(r, "sErr", "Bool")), term(num), term(w.recFn(r, "sPrio", "Int"))))
			}
			v = IfaceV{typ: types.Typ[types.Invalid], v: JSONField{r, k}}
		}
	} else if has {
		if r.mk {
			v = IfaceV{typ: types.Typ[types.String], v: w.recFn(r, "mStr_"+k, "String")}
		} else {
			v = IfaceV{typ: types.Typ[types.Invalid], v: JSONField{r, k}}
		}
	}
	if commaOk {
		return TupleV{v, has}
	}
	return v
}

func (w *World) harnessProp() string {
	n := w.eng.curHarness
	if strings.HasPrefix(n, "vpH_") && len(n) >= 7 {
		return n[4:7]
	}
	return "C00"
}

func (w *World) doAssert(id string, c Val) {
	w.eng.noteObligation(id)
	w.nAsserts++
	switch cv := c.(type) {
	case bool:
		if !cv {
			_, m := w.s.model("", w.inputs)
			w.violate(id, "", m)
		}
	case Sym:
		r, m := w.s.model("(not "+cv.t+")", w.inputs)
		switch r {
		case "sat":
			if w.floatRounding {
				// prefer a counterexample that does not sit on the edge of the rounding-error model: ask again
				// with every error term confined to a quarter of its bound; fall back to the first model
				var c []string
				for d := range w.declared {
					if strings.HasPrefix(d, "fpd_") {
						c = append(c, fmt.Sprintf("(<= (- (/ 1.0 36028797018963968.0)) %s) (<= %s (/ 1.0 36028797018963968.0))", d, d))
					}
				}
				if len(c) > 0 {
					unk := w.s.unknown
					if r2, m2 := w.s.model("(and (not "+cv.t+") "+strings.Join(c, " ")+")", w.inputs); r2 == "sat" {
						m = m2
					}
					w.s.unknown = unk
				}
				// the rounding model over-approximates IEEE rounding (direction unknown): offer alternative
				// counterexamples with different integer inputs so that replay can find one that IEEE realises
				var alts []map[string]string
				block := ""
				cur := m
				func() {
					defer func() { recover() }()
					for k := 0; k < 10 && cur != nil; k++ {
						var diff []string
						for name, val := range cur {
							if strings.HasPrefix(name, "in_") && !strings.ContainsAny(val, "\"./t") && val != "true" && val != "false" {
								v := val
								if strings.HasPrefix(v, "-") {
									v = "(- " + v[1:] + ")"
								}
								diff = append(diff, "(not (= "+name+" "+v+"))")
							}
						}
						if len(diff) == 0 {
							break
						}
						block += " (or " + strings.Join(diff, " ") + ")"
						unk := w.s.unknown
						r3, m3 := w.s.model("(and (not "+cv.t+")"+block+")", w.inputs)
						w.s.unknown = unk
						if r3 != "sat" {
							break
						}
						alts = append(alts, m3)
						cur = m3
					}
				}()
				w.violate(id, "", m)
				w.viol[len(w.viol)-1].AltModels = alts
				return
			}
			w.violate(id, "", m)
		case "unknown":
			w.inconclusive = "solver unknown on assertion " + id
		}
	default:
		panic(engErr(fmt.Sprintf("assert on %T", c)))
	}
}

func (w *World) intrinsic(t *Thread, f *Frame, fnv FuncV, args []Val, c *ssa.CallCommon) (Val, bool) {
	name := fnv.intr
	if name == "" {
		name = fnv.fn.String()
	}
	if fnv.fn != nil && fnv.fn.Name() == "init" && fnv.fn.Pkg != nil && fnv.fn.Pkg.Pkg.Path() != leaderPkg {
		return nil, false // initialisers of dependencies: their globals are evaluated lazily (initValue)
	}
	if strings.HasPrefix(name, leaderPkg+".vp") {
		return w.harnessAPI(t, f, strings.TrimPrefix(name, leaderPkg+"."), args)
	}
	switch name {
	// ---------- sync ----------
	case "(*sync.RWMutex).Lock", "(*sync.Mutex).Lock":
		m := w.mu(args[0].(Ptr))
		if m.w == t || m.readers[t] > 0 {
			// self-deadlock: the goroutine blocks forever
			t.waitMu = m
			t.waitWhat = "SELF-DEADLOCK on " + m.name
			t.ready = func() bool { return false }
			w.events = append(w.events, "self-deadlock:"+m.name+"@"+t.siteShort())
			return nil, true
		}
		if m.w != nil || len(m.readers) > 0 {
			t.waitMu = m
			t.waitWhat = "lock " + m.name
			t.ready = func() bool { return m.w == nil && len(m.readers) == 0 }
			return nil, true
		}
		m.w = t
		w.noteLock(t, m)
		if w.raceOn {
			t.vc = t.vc.join(m.vc).join(m.rvc)
		}
		return nil, false
	case "(*sync.RWMutex).Unlock", "(*sync.Mutex).Unlock":
		m := w.mu(args[0].(Ptr))
		if m.w == nil {
			w.violate(w.harnessProp()+".no-panic", "fatal error: sync: unlock of unlocked mutex "+m.name, nil)
			w.crashed = "unlock of unlocked mutex"
			return nil, true
		}
		m.w = nil
		w.noteUnlock(t, m)
		if w.raceOn {
			t.vc = t.vc.tick(t.id)
			m.vc = t.vc.copy()
		}
		return nil, false
	case "(*sync.RWMutex).RLock":
		m := w.mu(args[0].(Ptr))
		if m.w != nil {
			t.waitMu = m
			if m.w == t {
				t.waitWhat = "SELF-DEADLOCK (RLock under Lock) on " + m.name
				t.ready = func() bool { return false }
				w.events = append(w.events, "self-deadlock:"+m.name+"@"+t.siteShort())
				return nil, true
			}
			t.waitWhat = "rlock " + m.name
			t.ready = func() bool { return m.w == nil }
			return nil, true
		}
		m.readers[t]++
		w.noteLock(t, m)
		if w.raceOn {
			t.vc = t.vc.join(m.vc)
		}
		return nil, false
	case "(*sync.RWMutex).RUnlock":
		m := w.mu(args[0].(Ptr))
		m.readers[t]--
		if m.readers[t] <= 0 {
			delete(m.readers, t)
		}
		w.noteUnlock(t, m)
		if w.raceOn {
			// a reader's release is ordered before later writers, not before other readers
			t.vc = t.vc.tick(t.id)
			m.rvc = m.rvc.join(t.vc)
		}
		return nil, false
	case "(*sync.WaitGroup).Add":
		k := key(args[0].(Ptr))
		w.accessAtomic(t, args[0].(Ptr))
		w.wgs[k] += int(args[1].(int64))
		if w.wgs[k] < 0 {
			panic(goPanicSignal{"sync: negative WaitGroup counter"})
		}
		return nil, false
	case "(*sync.WaitGroup).Done":
		k := key(args[0].(Ptr))
		w.accessAtomic(t, args[0].(Ptr))
		w.wgs[k]--
		if w.raceOn {
			t.vc = t.vc.tick(t.id)
			w.wgVC[k] = w.wgVC[k].join(t.vc)
		}
		if w.wgs[k] < 0 {
			panic(goPanicSignal{"sync: negative WaitGroup counter"})
		}
		return nil, false
	case "(*sync.WaitGroup).Wait":
		k := key(args[0].(Ptr))
		w.accessAtomic(t, args[0].(Ptr))
		if w.wgs[k] > 0 {
			t.waitWhat = "wg.Wait"
			t.ready = func() bool { return w.wgs[k] == 0 }
			return nil, true
		}
		if w.raceOn {
			t.vc = t.vc.join(w.wgVC[k])
		}
		return nil, false
	case "(*sync.Once).Do":
		k := key(args[0].(Ptr))
		if w.onces[k] {
			return nil, false
		}
		w.onces[k] = true
		w.pushCall(t, args[1].(FuncV), nil, nil)
		// the pushed frame returns into this call instruction: make the call complete afterwards
		fr := t.frames[len(t.frames)-1]
		fr.ret = nil
		w.retBlock(f)
		return nil, true
	case "(*sync/atomic.Bool).Load", "(*sync/atomic.Uint64).Load", "(*sync/atomic.Int32).Load", "(*sync/atomic.Int64).Load", "(*sync/atomic.Value).Load", "(*sync/atomic.Uint32).Load":
		k := key(args[0].(Ptr))
		v, ok := w.cells[k]
		if !ok {
			switch {
			case strings.Contains(name, "Bool"):
				v = false
			case strings.Contains(name, "Value"):
				v = IfaceV{}
			default:
				v = int64(0)
			}
		}
		if w.raceOn {
			t.vc = t.vc.join(w.cellVC[k])
		}
		return v, false
	case "(*sync/atomic.Bool).Store", "(*sync/atomic.Uint64).Store", "(*sync/atomic.Int32).Store", "(*sync/atomic.Int64).Store", "(*sync/atomic.Value).Store", "(*sync/atomic.Uint32).Store":
		k := key(args[0].(Ptr))
		if strings.Contains(name, "Value") {
			nv := args[1].(IfaceV)
			if nv.typ == nil {
				panic(goPanicSignal{"sync/atomic: store of nil value into Value"})
			}
			if old, ok := w.cells[k].(IfaceV); ok && old.typ != nil && !types.Identical(old.typ, nv.typ) {
				panic(goPanicSignal{"sync/atomic: store of inconsistently typed value into Value"})
			}
		}
		w.cells[k] = args[1]
		if w.raceOn {
			t.vc = t.vc.tick(t.id)
			w.cellVC[k] = w.cellVC[k].join(t.vc)
		}
		return nil, false
	case "(*sync/atomic.Int32).Add", "(*sync/atomic.Int64).Add", "(*sync/atomic.Uint64).Add":
		k := key(args[0].(Ptr))
		var old Val = int64(0)
		if c, ok := w.cells[k]; ok && c != nil {
			old = c
		}
		nv := add(old, args[1]) // the addend may be symbolic
		w.cells[k] = nv
		if w.raceOn {
			t.vc = t.vc.join(w.cellVC[k]).tick(t.id)
			w.cellVC[k] = w.cellVC[k].join(t.vc)
		}
		return nv, false
	case "(*sync/atomic.Value).CompareAndSwap":
		k := key(args[0].(Ptr))
		cur, ok := w.cells[k]
		if !ok {
			cur = IfaceV{}
		}
		if w.raceOn {
			t.vc = t.vc.join(w.cellVC[k]).tick(t.id)
			w.cellVC[k] = w.cellVC[k].join(t.vc)
		}
		if w.truth(w.valEq(cur, args[1])) {
			w.cells[k] = args[2]
			return true, false
		}
		return false, false
	case "(*sync/atomic.Value).Swap":
		k := key(args[0].(Ptr))
		cur, ok := w.cells[k]
		if !ok {
			cur = IfaceV{}
		}
		w.cells[k] = args[1]
		if w.raceOn {
			t.vc = t.vc.join(w.cellVC[k]).tick(t.id)
			w.cellVC[k] = w.cellVC[k].join(t.vc)
		}
		return cur, false
	case "(*sync/atomic.Bool).CompareAndSwap", "(*sync/atomic.Int32).CompareAndSwap":
		k := key(args[0].(Ptr))
		cur, ok := w.cells[k]
		if !ok {
			if strings.Contains(name, "Bool") {
				cur = false
			} else {
				cur = int64(0)
			}
		}
		if w.raceOn {
			t.vc = t.vc.join(w.cellVC[k]).tick(t.id)
			w.cellVC[k] = w.cellVC[k].join(t.vc)
		}
		if cur == args[1] {
			w.cells[k] = args[2]
			return true, false
		}
		return false, false
	case "(*sync/atomic.Bool).Swap":
		k := key(args[0].(Ptr))
		cur, ok := w.cells[k]
		if !ok {
			cur = false
		}
		w.cells[k] = args[1]
		if w.raceOn {
			t.vc = t.vc.join(w.cellVC[k]).tick(t.id)
			w.cellVC[k] = w.cellVC[k].join(t.vc)
		}
		return cur, false
	// ---------- time ----------
	case "time.Now":
		return TimeV{w.now}, false
	case "time.Since":
		return sub(w.now, args[0].(TimeV).ns), false
	case "time.Until":
		return sub(args[0].(TimeV).ns, w.now), false
	case "(time.Time).IsZero":
		ns := args[0].(TimeV).ns
		if isSym(ns) {
			return symB("(= " + term(ns) + " 0)"), false
		}
		return ns.(int64) == 0, false
	case "(time.Time).Sub":
		return sub(args[0].(TimeV).ns, args[1].(TimeV).ns), false
	case "(time.Time).Add":
		return TimeV{add(args[0].(TimeV).ns, args[1])}, false
	case "(time.Time).Before":
		return w.binop(t, tokLSS, args[0].(TimeV).ns, args[1].(TimeV).ns, types.Typ[types.Int64], types.Typ[types.Bool]), false
	case "(time.Time).After":
		return w.binop(t, tokGTR, args[0].(TimeV).ns, args[1].(TimeV).ns, types.Typ[types.Int64], types.Typ[types.Bool]), false
	case "(time.Time).UnixNano":
		return args[0].(TimeV).ns, false
	case "(time.Time).Equal":
		return w.valEq(args[0].(TimeV).ns, args[1].(TimeV).ns), false
	case "(time.Duration).String":
		if d, ok := args[0].(int64); ok {
			return time.Duration(d).String(), false
		}
		return PStr{[]interface{}{opaqueNum{term(args[0])}}}, false
	case "(time.Duration).Seconds":
		if d, ok := args[0].(int64); ok {
			return time.Duration(d).Seconds(), false
		}
		return symR("(/ (to_real " + term(args[0]) + ") 1000000000.0)"), false
	case "(time.Duration).Milliseconds":
		if d, ok := args[0].(int64); ok {
			return d / 1e6, false
		}
		return symI("(div " + term(args[0]) + " 1000000)"), false
	case "time.After":
		w.nchan++
		ch := &Chan{cap: 1, id: w.nchan}
		ch.tm = w.newTimer(add(w.now, args[0]), "after")
		ch.tm.ch = ch
		return ch, false
	case "time.NewTimer":
		w.nchan++
		ch := &Chan{cap: 1, id: w.nchan}
		ch.tm = w.newTimer(add(w.now, args[0]), "timer")
		ch.tm.ch = ch
		o := w.newObj(StructV{[]Val{ch, ch.tm}}, nil)
		return Ptr{o: o}, false
	case "time.AfterFunc":
		tm := w.newTimer(add(w.now, args[0]), "afterfunc")
		tm.fn = args[1]
		o := w.newObj(StructV{[]Val{(*Chan)(nil), tm}}, nil)
		return Ptr{o: o}, false
	case "time.NewTicker":
		w.nchan++
		ch := &Chan{cap: 1, id: w.nchan}
		d := args[0]
		if dv, ok := d.(int64); ok && dv <= 0 {
			panic(goPanicSignal{"non-positive interval for NewTicker"})
		}
		if isSym(d) {
			if w.truth(symB("(<= " + term(d) + " 0)")) {
				panic(goPanicSignal{"non-positive interval for NewTicker"})
			}
		}
		tm := w.newTimer(add(w.now, d), "ticker")
		tm.ch, tm.period = ch, d
		ch.tm = tm
		o := w.newObj(StructV{[]Val{ch, tm}}, nil)
		return Ptr{o: o}, false
	case "(*time.Ticker).Stop":
		w.load(t, args[0].(Ptr)).(StructV).f[1].(*Timer).dead = true
		return nil, false
	case "(*time.Timer).Stop":
		p := args[0].(Ptr)
		if p.o == nil {
			panic(goPanicSignal{"nil pointer dereference (Timer.Stop)"})
		}
		tm := w.load(t, p).(StructV).f[1].(*Timer)
		was := !tm.dead && !tm.fired
		tm.dead = true
		return was, false
	case "time.Sleep":
		tm := w.newTimer(add(w.now, args[0]), "sleep")
		w.retBlock(f)
		t.waitTm = tm
		t.waitWhat = "sleep"
		t.ready = func() bool { return tm.fired }
		return nil, true
	// ---------- context ----------
	case "context.Background", "context.TODO":
		return IfaceV{typ: w.eng.ctxType, v: w.bg()}, false
	case "context.WithCancel":
		p, ok := args[0].(IfaceV).v.(*Ctx)
		if !ok {
			panic(goPanicSignal{"cannot create context from nil parent"})
		}
		cx := w.newCtx(p)
		return TupleV{IfaceV{typ: w.eng.ctxType, v: cx}, FuncV{intr: "cancel", data: cx}}, false
	case "context.WithTimeout", "context.WithDeadline":
		p, ok := args[0].(IfaceV).v.(*Ctx)
		if !ok {
			panic(goPanicSignal{"cannot create context from nil parent"})
		}
		cx := w.newCtx(p)
		var at Val
		if name == "context.WithTimeout" {
			at = add(w.now, args[1])
		} else {
			at = args[1].(TimeV).ns
		}
		cx.deadline = at
		tm := w.newTimer(at, "ctx-deadline")
		tm.fn = FuncV{intr: "deadline", data: cx}
		return TupleV{IfaceV{typ: w.eng.ctxType, v: cx}, FuncV{intr: "cancel", data: cx, binds: []Val{tm}}}, false
	case "cancel":
		w.ctxCancel(fnv.data.(*Ctx), "context canceled", nil)
		if len(fnv.binds) > 0 {
			fnv.binds[0].(*Timer).dead = true
		}
		return nil, false
	case "ctx.Done":
		return fnv.data.(*Ctx).done, false
	case "ctx.Err":
		cx := fnv.data.(*Ctx)
		if w.raceOn && cx.err != "" {
			t.vc = t.vc.join(cx.vc)
		}
		switch cx.err {
		case "":
			return IfaceV{}, false
		case "context canceled":
			return w.load(t, Ptr{o: w.global(w.eng.ctxCanceled)}), false
		default:
			return w.load(t, Ptr{o: w.global(w.eng.ctxDeadline)}), false
		}
	case "ctx.Value":
		return IfaceV{}, false
	case "ctx.Deadline":
		cx := fnv.data.(*Ctx)
		if cx.deadline == nil {
			return TupleV{TimeV{int64(0)}, false}, false
		}
		return TupleV{TimeV{cx.deadline}, true}, false
	// ---------- errors / strings / fmt ----------
	case "errors.Is":
		return w.errorsIs(t, args[0].(IfaceV), args[1].(IfaceV)), false
	case "errors.As":
		return w.errorsAs(t, args[0].(IfaceV), args[1].(IfaceV)), false
	case "errors.Join":
		var es []Val
		for _, x := range w.sliceElems(args[0]) {
			if iv, ok := x.(IfaceV); ok && iv.typ != nil {
				es = append(es, iv)
			}
		}
		if len(es) == 0 {
			return IfaceV{}, false
		}
		arr := w.newObj(ArrayV{es}, nil)
		o := w.newObj(StructV{[]Val{SliceV{arr, 0, len(es)}}}, w.eng.joinErrorT)
		return IfaceV{typ: types.NewPointer(w.eng.joinErrorT), v: Ptr{o: o}}, false
	case "(*errors.joinError).Error":
		var parts []interface{}
		for k, x := range w.sliceElems(w.load(t, args[0].(Ptr)).(StructV).f[0]) {
			if k > 0 {
				parts = append(parts, "\n")
			}
			switch r := w.render(t, x, 'v').(type) {
			case string:
				parts = append(parts, r)
			case PStr:
				parts = append(parts, r.parts...)
			case Sym:
				parts = append(parts, r)
			}
		}
		all := true
		str := ""
		for _, p := range parts {
			if cs, ok := p.(string); ok {
				str += cs
			} else {
				all = false
			}
		}
		if all {
			return str, false
		}
		return PStr{parts}, false
	case "(*errors.joinError).Unwrap":
		return w.load(t, args[0].(Ptr)).(StructV).f[0], false
	case "errors.Unwrap":
		return w.unwrap(t, args[0].(IfaceV)), false
	case "strings.ToLower":
		switch s := args[0].(type) {
		case string:
			return strings.ToLower(s), false
		case PStr:
			var np []interface{}
			for _, p := range s.parts {
				switch x := p.(type) {
				case string:
					np = append(np, strings.ToLower(x))
				case Sym:
					np = append(np, lowSym{x})
				default:
					np = append(np, p)
				}
			}
			return PStr{np}, false
		case Sym:
			return PStr{[]interface{}{lowSym{s}}}, false
		}
	case "strings.Contains":
		return w.strContains(args[0], args[1]), false
	case "(*encoding/json.UnmarshalTypeError).Error":
		return "json: cannot unmarshal value into Go struct field (abstract record)", false
	case "(*encoding/json.SyntaxError).Error":
		return "invalid character in JSON input (abstract record)", false
	case "bytes.Equal":
		x, xok := args[0].(BytesV)
		y, yok := args[1].(BytesV)
		if !xok || !yok {
			panic(engErr("bytes.Equal on non-record bytes"))
		}
		isEmpty := func(r *Rec) bool { return r == nil || r.empty }
		switch {
		case x.r == y.r, isEmpty(x.r) && isEmpty(y.r):
			return true, false
		case isEmpty(x.r) != isEmpty(y.r) && (x.r == nil || x.r.empty || x.r.mk) && (y.r == nil || y.r.empty || y.r.mk):
			return false, false // a marshalled payload is never empty
		}
		// two different abstract values: equality of their bytes is a free Boolean (both outcomes explored)
		return symB(w.fresh("bytes_eq", "Bool")), false
	case "strings.Map":
		src, ok := args[1].(string)
		if !ok {
			panic(engErr("strings.Map on a symbolic string"))
		}
		var sb strings.Builder
		for _, r := range src {
			out := w.callSync(t, args[0].(FuncV), []Val{int64(r)})
			if rv, ok := out.(int64); ok && rv >= 0 {
				sb.WriteRune(rune(rv))
			}
		}
		return sb.String(), false
	case "strings.TrimSpace":
		switch x := args[0].(type) {
		case string:
			return strings.TrimSpace(x), false
		case Sym:
			// abstraction: the argument either trims to itself, or it is white space only (witness: one blank)
			// and trims to the empty string
			t := w.fresh("trim", "String")
			w.s.send(fmt.Sprintf("(assert (=> (= %s \"\") (= %s \"\")))", x.t, t))
			w.s.send(fmt.Sprintf("(assert (=> (not (= %s \"\")) (= %s %s)))", t, t, x.t))
			w.s.send(fmt.Sprintf("(assert (=> (and (= %s \"\") (not (= %s \"\"))) (= %s \" \")))", t, x.t, x.t))
			return symS(t), false
		}
		panic(engErr("strings.TrimSpace on a partially symbolic string"))
	case "strings.ReplaceAll", "strings.ToUpper", "strings.TrimPrefix", "strings.TrimSuffix", "strings.HasSuffix",
		"strings.Index", "strings.EqualFold", "strings.Repeat", "strings.Trim", "strings.TrimLeft", "strings.TrimRight", "strings.Count", "strings.LastIndex", "strings.Title":
		var sa []string
		var ia []int64
		for _, a := range args {
			switch x := a.(type) {
			case string:
				sa = append(sa, x)
			case int64:
				ia = append(ia, x)
			default:
				panic(engErr(name + " on a symbolic or partially symbolic string"))
			}
		}
		switch name {
		case "strings.ReplaceAll":
			return strings.ReplaceAll(sa[0], sa[1], sa[2]), false
		case "strings.TrimSpace":
			return strings.TrimSpace(sa[0]), false
		case "strings.ToUpper":
			return strings.ToUpper(sa[0]), false
		case "strings.TrimPrefix":
			return strings.TrimPrefix(sa[0], sa[1]), false
		case "strings.TrimSuffix":
			return strings.TrimSuffix(sa[0], sa[1]), false
		case "strings.HasSuffix":
			return strings.HasSuffix(sa[0], sa[1]), false
		case "strings.Index":
			return int64(strings.Index(sa[0], sa[1])), false
		case "strings.LastIndex":
			return int64(strings.LastIndex(sa[0], sa[1])), false
		case "strings.EqualFold":
			return strings.EqualFold(sa[0], sa[1]), false
		case "strings.Repeat":
			return strings.Repeat(sa[0], int(ia[0])), false
		case "strings.Trim":
			return strings.Trim(sa[0], sa[1]), false
		case "strings.TrimLeft":
			return strings.TrimLeft(sa[0], sa[1]), false
		case "strings.TrimRight":
			return strings.TrimRight(sa[0], sa[1]), false
		case "strings.Count":
			return int64(strings.Count(sa[0], sa[1])), false
		}
		return sa[0], false
	case "strings.HasPrefix":
		if a, ok := args[0].(string); ok {
			if b, ok := args[1].(string); ok {
				return strings.HasPrefix(a, b), false
			}
		}
		return symB("(str.prefixof " + w.strTerm(args[1]) + " " + w.strTerm(args[0]) + ")"), false
	case "fmt.Sprintf":
		return w.sprintf(t, args[0].(string), args[1]), false
	case "fmt.Sprint":
		return w.sprintf(t, "%v", args[0]), false
	case "fmt.Errorf":
		return w.errorf(t, args[0].(string), args[1]), false
	// ---------- misc ----------
	case "github.com/google/uuid.New":
		return Opaque{"uuid"}, false
	case "(github.com/google/uuid.UUID).String":
		w.names["uuid"]++
		return fmt.Sprintf("uuid-%d", w.names["uuid"]), false
	case "hash/fnv.New64a", "hash/fnv.New64", "hash/fnv.New32a", "hash/fnv.New32":
		// an opaque hash state; its digests are unconstrained integers
		return IfaceV{typ: types.NewPointer(types.Typ[types.Uint64]), v: Opaque{"stdlib:hash"}}, false
	case "stdlib:hash.Write":
		if b, ok := args[0].(BytesV); ok && (b.r == nil || b.r.empty) {
			return TupleV{int64(0), IfaceV{}}, false
		}
		return TupleV{int64(8), IfaceV{}}, false
	case "stdlib:hash.Sum64", "stdlib:hash.Sum32":
		h := w.fresh("hash", "Int")
		w.s.send(fmt.Sprintf("(assert (and (>= %s 0) (< %s 4294967296)))", h, h))
		return symI(h), false
	case "math/rand/v2.NewPCG", "math/rand/v2.NewChaCha8", "math/rand.NewSource":
		return Ptr{w.newObj(Opaque{"rand-source"}, nil), ""}, false
	case "math/rand/v2.New", "math/rand.New":
		// a *rand.Rand is not safe for concurrent use: every draw is a write of its state (race-checked)
		o := w.newObj(Opaque{"rand.Rand"}, nil)
		o.label = "rand.Rand@" + t.frames[len(t.frames)-1].fn.Name()
		return Ptr{o, ""}, false
	case "(*math/rand/v2.Rand).Float64", "(*math/rand.Rand).Float64":
		if p, ok := args[0].(Ptr); ok && p.o != nil && w.raceOn {
			w.access(t, p, true)
		}
		w.usesRand = true
		if w.randFixed {
			return 0.5, false
		}
		r := w.fresh("rnd", "Real")
		w.s.send(fmt.Sprintf("(assert (and (>= %s 0.0) (< %s 1.0)))", r, r))
		return symR(r), false
	case "math/rand/v2.Float64", "math/rand.Float64":
		w.usesRand = true
		if w.randFixed {
			return 0.5, false
		}
		r := w.fresh("rnd", "Real")
		w.s.send(fmt.Sprintf("(assert (and (>= %s 0.0) (< %s 1.0)))", r, r))
		return symR(r), false
	case "math.Pow":
		k := "pow:" + fmt.Sprint(args[0]) + "^" + fmt.Sprint(args[1])
		if v, ok := w.cells[k]; ok {
			return v, false
		}
		v := w.mathPow(args[0], args[1])
		w.cells[k] = v
		return v, false
	case "math.Min", "math.Max":
		a, b := args[0], args[1]
		if fa, ok := a.(FSpec); ok && fa.k == 0 {
			return a, false
		}
		if fb, ok := b.(FSpec); ok && fb.k == 0 {
			return b, false
		}
		lt := w.binop(t, tokLSS, a, b, types.Typ[types.Float64], types.Typ[types.Bool])
		pickA := w.truth(lt) == (name == "math.Min")
		if w.infeas {
			return a, false
		}
		if pickA {
			return a, false
		}
		return b, false
	case "math.Floor", "math.Trunc", "math.Ceil":
		switch x := args[0].(type) {
		case float64:
			switch name {
			case "math.Floor":
				return math.Floor(x), false
			case "math.Ceil":
				return math.Ceil(x), false
			}
			return math.Trunc(x), false
		case FSpec:
			return x, false
		case Sym:
			fl := "(to_real (to_int " + x.t + "))"
			switch name {
			case "math.Floor":
				return symR(fl), false
			case "math.Ceil":
				return symR("(- (to_real (to_int (- " + x.t + "))))"), false
			}
			return symR("(ite (>= " + x.t + " 0.0) " + fl + " (- (to_real (to_int (- " + x.t + ")))))"), false
		}
	case "math.IsInf":
		sg := args[1].(int64)
		if fs, ok := args[0].(FSpec); ok {
			return fs.k != 0 && (sg == 0 || (sg > 0) == (fs.k > 0)), false
		}
		return false, false
	case "math.IsNaN":
		if fs, ok := args[0].(FSpec); ok {
			return fs.k == 0, false
		}
		return false, false
	case "math.Abs":
		switch x := args[0].(type) {
		case float64:
			return math.Abs(x), false
		case Sym:
			return symR("(ite (>= " + x.t + " 0.0) " + x.t + " (- " + x.t + "))"), false
		case FSpec:
			if x.k == 0 {
				return x, false
			}
			return FSpec{1}, false
		}
	case "encoding/json.Marshal":
		iv := args[0].(IfaceV)
		if n, ok := iv.typ.(*types.Named); ok && n.Obj().Name() == "leadershipPayload" {
			sv := iv.v.(StructV)
			return TupleV{BytesV{&Rec{mk: true, id: sv.f[0], tok: sv.f[1], prio: sv.f[2]}}, IfaceV{}}, false
		}
		panic(engErr("json.Marshal of " + iv.typ.String()))
	case "bytes.NewReader", "bytes.NewBuffer":
		b, _ := args[0].(BytesV)
		return Ptr{o: w.newObj(ReaderV{b}, nil)}, false
	case "bytes.NewBufferString", "strings.NewReader":
		return Ptr{o: w.newObj(ReaderV{w.convert(args[0], types.Typ[types.String], types.NewSlice(types.Typ[types.Uint8])).(BytesV)}, nil)}, false
	case "encoding/json.NewDecoder":
		iv, _ := args[0].(IfaceV)
		p, ok := iv.v.(Ptr)
		if !ok || p.o == nil {
			panic(engErr("json.NewDecoder on an unknown reader"))
		}
		rv, ok := p.o.v.(ReaderV)
		if !ok {
			panic(engErr("json.NewDecoder on an unknown reader"))
		}
		return Ptr{o: w.newObj(DecoderV{rv.b}, nil)}, false
	case "(*encoding/json.Decoder).Decode":
		d := args[0].(Ptr).o.v.(DecoderV)
		// a streaming decoder reads the FIRST JSON value and ignores what follows: its outcome on arbitrary
		// bytes is a separate abstract parse that agrees with Unmarshal whenever Unmarshal succeeds
		return w.jsonUnmarshal(t, BytesV{w.decoderView(d.b.r)}, args[1].(IfaceV)), false
	case "(*encoding/json.Decoder).DisallowUnknownFields", "(*encoding/json.Decoder).UseNumber":
		return nil, false
	case "encoding/json.Unmarshal":
		return w.jsonUnmarshal(t, args[0], args[1].(IfaceV)), false
	case "builtin:append":
		return w.appendOp(t, args[0], args[1]), false
	case "builtin:close":
		ch := args[0].(*Chan)
		if ch == nil {
			panic(goPanicSignal{"close of nil channel"})
		}
		if ch.closed {
			panic(goPanicSignal{"close of closed channel"})
		}
		ch.closed = true
		if w.raceOn {
			t.vc = t.vc.tick(t.id)
			ch.vc = ch.vc.join(t.vc)
		}
		return nil, false
	case "builtin:len":
		switch s := args[0].(type) {
		case SliceV:
			return int64(s.hi - s.lo), false
		case string:
			return int64(len(s)), false
		case BytesV:
			if s.r == nil || s.r.empty {
				return int64(0), false
			}
			if s.r.mk {
				return int64(64), false
			}
			if strings.HasPrefix(s.r.name, "raw:") {
				return int64(len(s.r.name) - 4), false
			}
			return symI("(ite " + term(w.recFn(s.r, "empty", "Bool")) + " 0 64)"), false
		case *MapV:
			if s == nil {
				return int64(0), false
			}
			return int64(len(s.keys)), false
		case *Chan:
			return int64(len(s.buf)), false
		case Sym:
			return symI("(str.len " + s.t + ")"), false
		}
	case "builtin:cap":
		switch s := args[0].(type) {
		case SliceV:
			if s.o == nil {
				return int64(0), false
			}
			return int64(len(s.o.v.(ArrayV).e) - s.lo), false
		case *Chan:
			if s == nil {
				return int64(0), false
			}
			return int64(s.cap), false
		}
	case "builtin:recover":
		if t.panicking {
			// mark the nearest frame in panic mode as recovered
			for i := len(t.frames) - 1; i >= 0; i-- {
				if t.frames[i].panicMode {
					t.frames[i].recovered = true
					break
				}
			}
			t.panicking = false
			v := t.panicVal
			if _, ok := v.(IfaceV); !ok {
				v = IfaceV{typ: types.Typ[types.String], v: v}
			}
			return v, false
		}
		return IfaceV{}, false
	case "builtin:delete":
		m := args[0].(*MapV)
		if m != nil {
			k := mapKey(args[1])
			if _, ok := m.m[k]; ok {
				delete(m.m, k)
				for i, kk := range m.keys {
					if kk == k {
						m.keys = append(m.keys[:i], m.keys[i+1:]...)
						break
					}
				}
			}
		}
		return nil, false
	case "builtin:print", "builtin:println":
		return nil, false
	case "builtin:min", "builtin:max":
		a, b := args[0].(int64), args[1].(int64)
		if (name == "builtin:min") == (a < b) {
			return a, false
		}
		return b, false
	}
	if strings.HasPrefix(name, "go.uber.org/zap.") {
		return Opaque{"zapfield"}, false
	}
	if fnv.fn != nil && strings.HasPrefix(name, "github.com/nats-io/nats.go.") && fnv.fn.Signature.Results().Len() == 1 {
		// option constructors of the client (nats.IncludeHistory(), nats.IgnoreDeletes(), ...): opaque non-nil values
		rt := fnv.fn.Signature.Results().At(0).Type()
		if types.IsInterface(rt) && strings.HasSuffix(rt.String(), "Opt") {
			return IfaceV{typ: types.Typ[types.UnsafePointer], v: Opaque{"nats-option:" + fnv.fn.Name()}}, false
		}
	}
	panic(engErr("no intrinsic for " + name))
}

const (
	tokLSS = 40 // token.LSS
	tokGTR = 41 // token.GTR
)

func (w *World) appendOp(t *Thread, a0, a1 Val) Val {
	if b, ok := a0.(BytesV); ok {
		_ = b
		panic(engErr("append on []byte"))
	}
	a, _ := a0.(SliceV)
	b, _ := a1.(SliceV)
	if a.o != nil && b.o != nil && b.hi > b.lo {
		// spare capacity: the new elements are written into the existing backing array (which other slices,
		// and other goroutines, may share)
		if back := a.o.v.(ArrayV).e; a.hi+(b.hi-b.lo) <= len(back) {
			ne := append([]Val(nil), back...)
			for k, v := range b.o.v.(ArrayV).e[b.lo:b.hi] {
				if w.raceOn {
					w.access(t, Ptr{a.o, fmt.Sprintf(".%d", a.hi+k)}, true)
				}
				ne[a.hi+k] = v
			}
			a.o.v = ArrayV{ne}
			if os.Getenv("VP_DEBUG_APPEND") != "" {
				fmt.Fprintf(os.Stderr, "append in place: label=%q thread=%s at=%d..%d\n", a.o.label, t.name, a.hi, a.hi+(b.hi-b.lo))
			}
			return SliceV{a.o, a.lo, a.hi + (b.hi - b.lo)}
		}
	}
	var e []Val
	if a.o != nil {
		e = append(e, a.o.v.(ArrayV).e[a.lo:a.hi]...)
	}
	if b.o != nil {
		e = append(e, b.o.v.(ArrayV).e[b.lo:b.hi]...)
	}
	return SliceV{w.newObj(ArrayV{e}, nil), 0, len(e)}
}

func (w *World) sliceElems(v Val) []Val {
	s, ok := v.(SliceV)
	if !ok || s.o == nil {
		return nil
	}
	return s.o.v.(ArrayV).e[s.lo:s.hi]
}

// ---------- errors ----------
func (w *World) method(typ types.Type, name string) *ssa.Function {
	ms := w.prog.MethodSets.MethodSet(typ)
	for i := 0; i < ms.Len(); i++ {
		if ms.At(i).Obj().Name() == name {
			return w.prog.MethodValue(ms.At(i))
		}
	}
	return nil
}

// unwrapAll returns the errors directly wrapped by e (Unwrap() error or Unwrap() []error).
func (w *World) unwrapAll(t *Thread, e IfaceV) []IfaceV {
	if e.typ == nil {
		return nil
	}
	if _, ok := e.v.(*Ctx); ok {
		return nil
	}
	m := w.method(e.typ, "Unwrap")
	if m == nil || m.Signature.Results().Len() != 1 {
		return nil
	}
	if _, isSlice := m.Signature.Results().At(0).Type().Underlying().(*types.Slice); isSlice {
		var out []IfaceV
		for _, x := range w.sliceElems(w.callSync(t, FuncV{fn: m}, []Val{e.v})) {
			if iv, ok := x.(IfaceV); ok && iv.typ != nil {
				out = append(out, iv)
			}
		}
		return out
	}
	r, _ := w.callSync(t, FuncV{fn: m}, []Val{e.v}).(IfaceV)
	if r.typ == nil {
		return nil
	}
	return []IfaceV{r}
}

func (w *World) unwrap(t *Thread, e IfaceV) IfaceV {
	if e.typ == nil {
		return IfaceV{}
	}
	if _, ok := e.v.(*Ctx); ok {
		return IfaceV{}
	}
	m := w.method(e.typ, "Unwrap")
	if m == nil || m.Signature.Results().Len() != 1 {
		return IfaceV{}
	}
	if _, isSlice := m.Signature.Results().At(0).Type().Underlying().(*types.Slice); isSlice {
		return IfaceV{} // errors.Unwrap does not descend into multi-error wrappers
	}
	r, _ := w.callSync(t, FuncV{fn: m}, []Val{e.v}).(IfaceV)
	return r
}

func (w *World) errorsIs(t *Thread, err, target IfaceV) Val {
	return w.errorsIsD(t, err, target, 0)
}

func (w *World) errorsIsD(t *Thread, err, target IfaceV, depth int) bool {
	if depth > 32 {
		panic(engErr("errors.Is depth"))
	}
	if err.typ == nil {
		return target.typ == nil
	}
	if target.typ != nil && types.Comparable(target.typ) {
		if w.truth(w.valEq(err, target)) {
			return true
		}
	}
	if m := w.method(err.typ, "Is"); m != nil && m.Signature.Params().Len() == 1 {
		if r := w.callSync(t, FuncV{fn: m}, []Val{err.v, target}); w.truth(r) {
			return true
		}
	}
	for _, c := range w.unwrapAll(t, err) {
		if w.errorsIsD(t, c, target, depth+1) {
			return true
		}
	}
	return false
}

func (w *World) errorsAs(t *Thread, err, target IfaceV) Val {
	tp, ok := target.typ.(*types.Pointer)
	if !ok {
		panic(goPanicSignal{"errors: target must be a non-nil pointer"})
	}
	return w.errorsAsD(t, err, target, tp.Elem(), 0)
}

func (w *World) errorsAsD(t *Thread, err, target IfaceV, want types.Type, depth int) bool {
	if depth > 32 {
		panic(engErr("errors.As depth"))
	}
	if err.typ == nil {
		return false
	}
	match := false
	if types.IsInterface(want) {
		match = types.Implements(err.typ, want.Underlying().(*types.Interface))
	} else {
		match = types.Identical(err.typ, want)
	}
	if match {
		if types.IsInterface(want) {
			w.store(t, target.v.(Ptr), err)
		} else {
			w.store(t, target.v.(Ptr), err.v)
		}
		return true
	}
	for _, c := range w.unwrapAll(t, err) {
		if w.errorsAsD(t, c, target, want, depth+1) {
			return true
		}
	}
	return false
}

// errText returns err.Error() (concrete string, PStr or Sym).
func (w *World) errText(t *Thread, e IfaceV) Val {
	m := w.method(e.typ, "Error")
	if m == nil {
		panic(engErr("no Error method on " + e.typ.String()))
	}
	return w.callSync(t, FuncV{fn: m}, []Val{e.v})
}

// ---------- formatting ----------
func (w *World) render(t *Thread, a Val, verb byte) interface{} {
	iv, ok := a.(IfaceV)
	if !ok {
		iv = IfaceV{typ: nil, v: a}
	}
	if iv.typ == nil && iv.v == nil {
		return "<nil>"
	}
	if iv.typ != nil && verb != 'd' {
		if _, isCtx := iv.v.(*Ctx); !isCtx {
			if types.Implements(iv.typ, w.eng.errorIface) {
				if p, isP := iv.v.(Ptr); isP && p.o == nil {
					return "<nil>"
				}
				return w.errText(t, iv)
			}
			if m := w.method(iv.typ, "String"); m != nil && m.Signature.Params().Len() == 0 {
				return w.callSync(t, FuncV{fn: m}, []Val{iv.v})
			}
		}
	}
	switch x := iv.v.(type) {
	case string:
		if verb == 'q' {
			return fmt.Sprintf("%q", x)
		}
		return x
	case int64:
		if iv.typ != nil {
			if b, ok := iv.typ.Underlying().(*types.Basic); ok && (b.Kind() == types.Uint64 || b.Kind() == types.Uint) {
				return fmt.Sprint(uint64(x))
			}
		}
		return fmt.Sprint(x)
	case bool:
		return fmt.Sprint(x)
	case float64:
		if verb == 'f' {
			return fmt.Sprintf("%f", x)
		}
		return fmt.Sprint(x)
	case Sym:
		if x.s == 'S' {
			return x
		}
		return PStr{[]interface{}{opaqueNum{x.t}}}
	case PStr:
		return x
	case IfaceV:
		return w.render(t, x, verb)
	}
	return PStr{[]interface{}{opaqueNum{fmt.Sprintf("%T", iv.v)}}}
}

func (w *World) format(t *Thread, fmtS string, args []Val) (Val, []IfaceV) {
	var parts []interface{}
	var wrapped []IfaceV
	var cur strings.Builder
	flush := func() {
		if cur.Len() > 0 {
			parts = append(parts, cur.String())
			cur.Reset()
		}
	}
	ai := 0
	for i := 0; i < len(fmtS); i++ {
		c := fmtS[i]
		if c != '%' {
			cur.WriteByte(c)
			continue
		}
		i++
		if i >= len(fmtS) {
			break
		}
		// skip flags/width
		for i < len(fmtS) && strings.ContainsRune("+-# 0123456789.", rune(fmtS[i])) {
			i++
		}
		if i >= len(fmtS) {
			break
		}
		verb := fmtS[i]
		if verb == '%' {
			cur.WriteByte('%')
			continue
		}
		if ai >= len(args) {
			cur.WriteString("%!" + string(verb) + "(MISSING)")
			continue
		}
		a := args[ai]
		ai++
		if verb == 'w' {
			if iv, ok := a.(IfaceV); ok {
				wrapped = append(wrapped, iv)
			}
		}
		switch r := w.render(t, a, verb).(type) {
		case string:
			cur.WriteString(r)
		case PStr:
			flush()
			parts = append(parts, r.parts...)
		case Sym:
			flush()
			parts = append(parts, r)
		default:
			panic(engErr(fmt.Sprintf("render result %T", r)))
		}
	}
	flush()
	// collapse
	allConc, anySym := true, false
	for _, p := range parts {
		switch p.(type) {
		case string:
		case Sym:
			anySym = true
			allConc = false
		default:
			allConc = false
		}
	}
	if allConc {
		s := ""
		for _, p := range parts {
			s += p.(string)
		}
		return s, wrapped
	}
	_ = anySym
	return PStr{parts}, wrapped
}

func (w *World) sprintf(t *Thread, fmtS string, va Val) Val {
	r, _ := w.format(t, fmtS, w.sliceElems(va))
	return r
}

func (w *World) errorf(t *Thread, fmtS string, va Val) Val {
	msg, wrapped := w.format(t, fmtS, w.sliceElems(va))
	if len(wrapped) == 1 {
		o := w.newObj(StructV{[]Val{msg, wrapped[0]}}, w.eng.wrapErrorT)
		return IfaceV{typ: types.NewPointer(w.eng.wrapErrorT), v: Ptr{o: o}}
	}
	if len(wrapped) > 1 {
		var es []Val
		for _, x := range wrapped {
			es = append(es, x)
		}
		arr := w.newObj(ArrayV{es}, nil)
		o := w.newObj(StructV{[]Val{msg, SliceV{arr, 0, len(es)}}}, w.eng.wrapErrorsT)
		return IfaceV{typ: types.NewPointer(w.eng.wrapErrorsT), v: Ptr{o: o}}
	}
	o := w.newObj(StructV{[]Val{msg}}, w.eng.errorStringT)
	return IfaceV{typ: types.NewPointer(w.eng.errorStringT), v: Ptr{o: o}}
}

func (w *World) strTerm(v Val) string {
	switch s := v.(type) {
	case string:
		return smtStr(s)
	case Sym:
		return s.t
	}
	panic(engErr(fmt.Sprintf("strTerm %T", v)))
}

func (w *World) strContains(hay, needle Val) Val {
	pat, ok := needle.(string)
	if !ok {
		panic(engErr("strings.Contains with a symbolic pattern"))
	}
	switch h := hay.(type) {
	case string:
		return strings.Contains(h, pat)
	case Sym:
		panic(engErr("case-sensitive strings.Contains on symbolic text"))
	case PStr:
		return w.pstrContains(h, pat)
	}
	panic(engErr(fmt.Sprintf("strings.Contains on %T", hay)))
}

// lowSym is a symbolic string piece under strings.ToLower.
type lowSym struct{ s Sym }

var numAlphabet = "0123456789.hmsµn-"

// pstrContains decides Contains(lower(T), pat) for a text T made of concrete pieces, free
// symbolic strings x (lowered) and formatted symbolic numbers/durations. Encoding: one Bool
// has(x,pat) per free string and pattern ("lower(x) contains pat"); the result is the disjunction
// of the concrete hits and the has atoms, exact whenever no occurrence can straddle a piece
// boundary; where a straddling occurrence is syntactically possible a fresh unconstrained Bool is
// added (over-approximation: unsat stays sound, sat must replay).
func (w *World) pstrContains(h PStr, pat string) Val {
	var res Val = false
	run := ""
	parts := h.parts
	flush := func() {
		if strings.Contains(run, pat) {
			res = true
		}
		run = ""
	}
	for i, p := range parts {
		switch x := p.(type) {
		case string:
			run += x
		case opaqueNum:
			flush()
			// (i) covering the first char needs a digit or '-' in the pattern; (ii) starting inside
			// needs the pattern to begin with the tail of a unit suffix.
			if strings.ContainsAny(pat, "0123456789-") {
				panic(engErr("undecided strings.Contains over a formatted symbolic number: " + pat))
			}
			for _, sfx := range []string{"s", "ms", "ns", "µs", "h", "m"} {
				if strings.HasPrefix(pat, sfx) {
					panic(engErr("undecided strings.Contains over a formatted symbolic duration: " + pat))
				}
			}
		case lowSym:
			flush()
			res = or(res, w.hasAtom(x.s, pat))
			// straddling occurrences across the boundaries of x
			left, right := "", ""
			leftOpen, rightOpen := false, false
			if i > 0 {
				if ls, ok := parts[i-1].(string); ok {
					left = ls
				} else {
					leftOpen = true
				}
			}
			if i+1 < len(parts) {
				if rs, ok := parts[i+1].(string); ok {
					right = rs
				} else {
					rightOpen = true
				}
			}
			possible := leftOpen || rightOpen
			for k := 1; k < len(pat) && !possible; k++ {
				if strings.HasSuffix(left, pat[:k]) || strings.HasPrefix(right, pat[k:]) {
					possible = true
				}
			}
			if possible {
				// one atom per (text, piece, pattern): repeated evaluations of the same text agree
				k := fmt.Sprintf("straddle_%x", sha1.Sum([]byte(pstrKey(h)+"#"+fmt.Sprint(i)+"#"+pat)))[:26]
				if !w.declared[k] {
					w.declared[k] = true
					w.s.send("(declare-const " + k + " Bool)")
				}
				res = or(res, symB(k))
			}
		case Sym:
			panic(engErr("case-sensitive strings.Contains on symbolic text"))
		default:
			panic(engErr(fmt.Sprintf("pstr piece %T", p)))
		}
	}
	flush()
	return res
}

func pstrKey(h PStr) string {
	var sb strings.Builder
	for _, p := range h.parts {
		switch x := p.(type) {
		case string:
			sb.WriteString("c:" + x + "|")
		case lowSym:
			sb.WriteString("l:" + x.s.t + "|")
		case Sym:
			sb.WriteString("s:" + x.t + "|")
		case opaqueNum:
			sb.WriteString("n:" + x.t + "|")
		}
	}
	return sb.String()
}

func hexName(s string) string { return fmt.Sprintf("%x", s) }

// hasAtom returns the Bool "lower(x) contains pat", with the axioms tying the atoms of one
// variable together (substring closure over the patterns seen, agreement with equalities).
func (w *World) hasAtom(x Sym, pat string) Val {
	vi := w.strVars[x.t]
	if vi == nil {
		vi = &strVarInfo{pats: map[string]string{}, consts: map[string]bool{}}
		w.strVars[x.t] = vi
	}
	if n, ok := vi.pats[pat]; ok {
		return symB(n)
	}
	n := "has_" + sanRe.ReplaceAllString(x.t, "_") + "_" + hexName(pat)
	w.s.send("(declare-const " + n + " Bool)")
	w.inputs = append(w.inputs, n)
	for q, qn := range vi.pats {
		if strings.Contains(q, pat) {
			w.s.send("(assert (=> " + qn + " " + n + "))")
		}
		if strings.Contains(pat, q) {
			w.s.send("(assert (=> " + n + " " + qn + "))")
		}
	}
	for c := range vi.consts {
		w.s.send(fmt.Sprintf("(assert (=> (= %s %s) (= %s %v)))", x.t, smtStr(c), n, strings.Contains(strings.ToLower(c), pat)))
	}
	vi.pats[pat] = n
	return symB(n)
}

// noteStrConst records that x is compared with the constant c (keeps has-atoms consistent with it).
func (w *World) noteStrConst(x Sym, c string) {
	vi := w.strVars[x.t]
	if vi == nil {
		vi = &strVarInfo{pats: map[string]string{}, consts: map[string]bool{}}
		w.strVars[x.t] = vi
	}
	if vi.consts[c] {
		return
	}
	vi.consts[c] = true
	for p, n := range vi.pats {
		w.s.send(fmt.Sprintf("(assert (=> (= %s %s) (= %s %v)))", x.t, smtStr(c), n, strings.Contains(strings.ToLower(c), p)))
	}
}

type strVarInfo struct {
	pats   map[string]string
	consts map[string]bool
}

// ---------- math.Pow ----------
func (w *World) mathPow(x, y Val) Val {
	xf, xc := x.(float64)
	yf, yc := y.(float64)
	if xc && yc {
		r := math.Pow(xf, yf)
		switch {
		case math.IsNaN(r):
			return FSpec{0}
		case math.IsInf(r, 1):
			return FSpec{1}
		case math.IsInf(r, -1):
			return FSpec{-1}
		}
		return r
	}
	// contract used (stated assumption): base >= 1 and exponent >= 0  =>  result in [1, MaxFloat64] or +Inf;
	// exponent == 0 => 1; otherwise (base<1 or exponent<0) result is an arbitrary non-negative finite or +Inf.
	w.names["pow"]++
	which := w.decide(2, "pow-overflow")
	if which == 1 {
		// +Inf needs base > 1 and a large exponent. The branch is restricted to the realisable subset
		// base >= 2, exponent >= 1024 (2^1024 overflows float64): code downstream of an infinite result
		// does not depend on base and exponent any more, so overflows with 1 < base < 2 behave identically.
		w.s.send("(assert (and (>= " + term(x) + " 2.0) (>= " + term(y) + " 1024.0)))")
		if w.s.check("") != "sat" {
			w.infeas = true
		}
		return FSpec{1}
	}
	p := w.fresh("pow", "Real")
	w.s.send(fmt.Sprintf("(assert (and (>= %s 0.0) (<= %s 179769313486231570814527423731704356798070567525844996598917476803157260780028538760589558632766878171540458953514382464234321326889464182768467546703537516986049910576551282076245490090389328944075868508455133942304583236903222948165808559332123348274797826204144723168738177180919299881250404026184124858368.0)))", p, p))
	w.s.send(fmt.Sprintf("(assert (=> (and (>= %s 1.0) (>= %s 0.0)) (>= %s 1.0)))", term(x), term(y), p))
	w.s.send(fmt.Sprintf("(assert (=> (= %s 0.0) (= %s 1.0)))", term(y), p))
	w.s.send(fmt.Sprintf("(assert (=> (= %s 1.0) (= %s 1.0)))", term(x), p))
	w.s.send(fmt.Sprintf("(assert (=> (= %s 1.0) (= %s %s)))", term(y), p, term(x)))
	w.s.send(fmt.Sprintf("(assert (=> (and (>= %s 1.0) (>= %s 1.0)) (>= %s %s)))", term(x), term(y), p, term(x)))
	return symR(p)
}

// ---------- JSON ----------
type ReaderV struct{ b BytesV }
type DecoderV struct{ b BytesV }

// decoderView: the record as seen by json.Decoder.Decode (first value only).
func (w *World) decoderView(r *Rec) *Rec {
	if r == nil || r.empty || r.mk || strings.HasPrefix(r.name, "raw") {
		return r
	}
	if v := w.recs["decview:"+r.name]; v != nil {
		return v
	}
	v := &Rec{name: r.name + "_dec"}
	w.recs["decview:"+r.name] = v
	pairs := [][2]string{{"sErr", "Bool"}, {"mErr", "Bool"}, {"sNull", "Bool"}, {"sID", "String"}, {"sTok", "String"}, {"sPrio", "Int"},
		{"mHas_id", "Bool"}, {"mIsStr_id", "Bool"}, {"mStr_id", "String"}, {"mHas_token", "Bool"}, {"mIsStr_token", "Bool"}, {"mStr_token", "String"}}
	var eqS, eqM []string
	for _, p := range pairs {
		a, b := term(w.recFn(r, p[0], p[1])), term(w.recFn(v, p[0], p[1]))
		if strings.HasPrefix(p[0], "m") {
			eqM = append(eqM, "(= "+a+" "+b+")")
		} else {
			eqS = append(eqS, "(= "+a+" "+b+")")
		}
	}
	w.s.send("(assert (not " + term(w.recFn(v, "empty", "Bool")) + "))")
	w.s.send("(assert (=> " + term(w.recFn(v, "mErr", "Bool")) + " " + term(w.recFn(v, "sErr", "Bool")) + "))")
	w.s.send("(assert (=> (not " + term(w.recFn(r, "mErr", "Bool")) + ") (and " + strings.Join(eqM, " ") + ")))")
	w.s.send("(assert (=> (not " + term(w.recFn(r, "sErr", "Bool")) + ") (and " + strings.Join(eqS, " ") + ")))")
	return v
}

func (w *World) jsonUnmarshal(t *Thread, data Val, target IfaceV) Val {
	b, _ := data.(BytesV)
	tp, ok := target.typ.(*types.Pointer)
	if !ok {
		return errIface(w, "json: Unmarshal(non-pointer)")
	}
	ptr := target.v.(Ptr)
	isPayload := false
	if n, ok := tp.Elem().(*types.Named); ok && n.Obj().Name() == "leadershipPayload" {
		isPayload = true
	}
	if pp, ok := tp.Elem().(*types.Pointer); ok {
		if n, ok := pp.Elem().(*types.Named); ok && n.Obj().Name() == "leadershipPayload" {
			// target is **leadershipPayload: JSON null sets the inner pointer to nil, anything else fills a payload
			if b.r == nil || b.r.empty {
				return errIface(w, "unexpected end of JSON input")
			}
			if strings.HasPrefix(b.r.name, "raw:") {
				panic(engErr("json.Unmarshal of concrete bytes into **leadershipPayload"))
			}
			if w.truth(w.recFn(b.r, "sNull", "Bool")) {
				w.store(t, ptr, Ptr{})
				return IfaceV{}
			}
			inner, _ := w.load(t, ptr).(Ptr)
			if inner.o == nil {
				inner = Ptr{o: w.newObj(zero(pp.Elem()), pp.Elem())}
				w.store(t, ptr, inner)
			}
			if w.truth(w.recFn(b.r, "sErr", "Bool")) {
				return errIface(w, "json: cannot unmarshal (abstract record)")
			}
			w.store(t, inner, StructV{[]Val{w.recFn(b.r, "sID", "String"), w.recFn(b.r, "sTok", "String"), w.recFn(b.r, "sPrio", "Int")}})
			return IfaceV{}
		}
	}
	_, isMap := tp.Elem().Underlying().(*types.Map)
	if !isPayload && !isMap {
		panic(engErr("json.Unmarshal into " + tp.Elem().String()))
	}
	if b.r == nil || b.r.empty {
		return errIface(w, "unexpected end of JSON input")
	}
	if strings.HasPrefix(b.r.name, "raw:") {
		txt := strings.TrimPrefix(b.r.name, "raw:")
		if isPayload {
			var p struct {
				ID       string `json:"id"`
				Token    string `json:"token"`
				Priority int    `json:"priority,omitempty"`
			}
			cur := w.load(t, ptr).(StructV)
			p.ID, _ = cur.f[0].(string)
			p.Token, _ = cur.f[1].(string)
			if pr, ok := cur.f[2].(int64); ok {
				p.Priority = int(pr)
			}
			err := json.Unmarshal([]byte(txt), &p)
			w.store(t, ptr, StructV{[]Val{p.ID, p.Token, int64(p.Priority)}})
			if err != nil {
				return errIface(w, err.Error())
			}
			return IfaceV{}
		}
		m := map[string]interface{}{}
		if err := json.Unmarshal([]byte(txt), &m); err != nil {
			return errIface(w, err.Error())
		}
		mv := &MapV{m: map[string]Val{}}
		var ks []string
		for k := range m {
			ks = append(ks, k)
		}
		sort.Strings(ks)
		for _, k := range ks {
			mv.keys = append(mv.keys, k)
			switch x := m[k].(type) {
			case string:
				mv.m[k] = IfaceV{types.Typ[types.String], x}
			case float64:
				mv.m[k] = IfaceV{types.Typ[types.Float64], x}
			case bool:
				mv.m[k] = IfaceV{types.Typ[types.Bool], x}
			case nil:
				mv.m[k] = IfaceV{}
			default:
				mv.m[k] = IfaceV{types.Typ[types.UnsafePointer], Opaque{"json-composite"}}
			}
		}
		w.store(t, ptr, mv)
		return IfaceV{}
	}
	if isPayload {
		if w.truth(w.recFn(b.r, "sErr", "Bool")) {
			// valid JSON whose members do not fit the struct is a *json.UnmarshalTypeError (the decoder has
			// filled in what did fit); anything else a *json.SyntaxError
			if w.eng.jsonTypeErrT != nil && !w.truth(w.recFn(b.r, "mErr", "Bool")) {
				if !w.infeas {
					w.store(t, ptr, StructV{[]Val{w.recFn(b.r, "sID", "String"), w.recFn(b.r, "sTok", "String"), w.recFn(b.r, "sPrio", "Int")}})
				}
				o := w.newObj(Opaque{"json.UnmarshalTypeError"}, w.eng.jsonTypeErrT)
				return IfaceV{typ: types.NewPointer(w.eng.jsonTypeErrT), v: Ptr{o: o}}
			}
			if w.eng.jsonSyntaxErrT != nil {
				o := w.newObj(Opaque{"json.SyntaxError"}, w.eng.jsonSyntaxErrT)
				return IfaceV{typ: types.NewPointer(w.eng.jsonSyntaxErrT), v: Ptr{o: o}}
			}
			return errIface(w, "json: cannot unmarshal (abstract record)")
		}
		if w.infeas {
			return IfaceV{}
		}
		w.store(t, ptr, StructV{[]Val{w.recFn(b.r, "sID", "String"), w.recFn(b.r, "sTok", "String"), w.recFn(b.r, "sPrio", "Int")}})
		return IfaceV{}
	}
	if w.truth(w.recFn(b.r, "mErr", "Bool")) {
		return errIface(w, "json: cannot unmarshal (abstract record)")
	}
	w.store(t, ptr, &MapV{json: b.r})
	return IfaceV{}
}
