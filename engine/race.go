package main

import (
	"sort"
	"strings"
)

// VC is a vector clock (thread id → counter). nil is the zero clock.
type VC map[int]int

func (v VC) copy() VC {
	n := make(VC, len(v)+1)
	for k, x := range v {
		n[k] = x
	}
	return n
}
func (v VC) tick(id int) VC {
	n := v.copy()
	n[id]++
	return n
}
func (v VC) join(o VC) VC {
	if len(o) == 0 {
		if v == nil {
			return VC{}
		}
		return v
	}
	n := v.copy()
	for k, x := range o {
		if x > n[k] {
			n[k] = x
		}
	}
	return n
}

// pathOverlap: one dotted index path is the other or an ancestor of it (".1" and ".12" are unrelated).
func pathOverlap(a, b string) bool {
	if len(a) > len(b) {
		a, b = b, a
	}
	return strings.HasPrefix(b, a) && (len(a) == len(b) || b[len(a)] == '.')
}

type accRec struct {
	tid   int
	clk   int
	site  string
	write bool
}
type accInfo struct {
	lastW *accRec
	reads []accRec
}

func (w *World) accSite(t *Thread) string {
	for i := len(t.frames) - 1; i >= 0; i-- {
		fn := t.frames[i].fn
		n := fn.Name()
		if fn.Parent() != nil {
			n = fn.Parent().Name() + "$"
		}
		if strings.HasPrefix(n, "vp") {
			continue
		}
		return n
	}
	return t.name
}

// access records a plain (non-atomic) memory access and reports conflicting unordered pairs.
func (w *World) access(t *Thread, p Ptr, write bool) {
	if t == nil || p.o == nil || (p.o.typ == nil && p.o.label == "") {
		return
	}
	// tracked memory: fields of the election / handler / monitor structs, and local variables of library
	// functions that escape to closures and goroutines
	name := p.o.label
	if name == "" {
		name = fieldName(p.o.typ, idxs(p.path))
		if !w.eng.raceTracked(name) {
			return
		}
	} else if strings.HasSuffix(name, ".e") || strings.HasSuffix(name, ".ctx") || strings.HasSuffix(name, ".d") || strings.HasSuffix(name, ".m") {
		return // captured receivers / parameters are written once before the goroutine starts
	}
	if p.o.acc == nil {
		p.o.acc = map[string]*accInfo{}
	}
	me := accRec{t.id, t.vc[t.id], w.accSite(t), write}
	happensBefore := func(a *accRec) bool { return a.tid == t.id || a.clk <= t.vc[a.tid] }
	for path, ai := range p.o.acc {
		if !pathOverlap(path, p.path) {
			continue
		}
		if ai.lastW != nil && !happensBefore(ai.lastW) {
			w.reportRace(name, ai.lastW, &me)
		}
		if write {
			for i := range ai.reads {
				if !happensBefore(&ai.reads[i]) {
					w.reportRace(name, &ai.reads[i], &me)
				}
			}
		}
	}
	ai := p.o.acc[p.path]
	if ai == nil {
		ai = &accInfo{}
		p.o.acc[p.path] = ai
	}
	if write {
		ai.lastW = &me
		ai.reads = nil
	} else {
		// keep one read per thread
		for i := range ai.reads {
			if ai.reads[i].tid == t.id {
				ai.reads[i] = me
				return
			}
		}
		ai.reads = append(ai.reads, me)
	}
}

// accessAtomic records an operation of a synchronisation primitive living at p (WaitGroup.Add/Done/Wait): it
// conflicts with an unordered plain write of that memory, never with other such operations.
func (w *World) accessAtomic(t *Thread, p Ptr) {
	if !w.raceOn || t == nil || p.o == nil || p.o.typ == nil {
		return
	}
	name := p.o.label
	if name == "" {
		name = fieldName(p.o.typ, idxs(p.path))
		if !w.eng.raceTracked(name) {
			return
		}
	}
	if p.o.acc == nil {
		p.o.acc = map[string]*accInfo{}
	}
	me := accRec{t.id, t.vc[t.id], w.accSite(t) + "(sync-op)", false}
	for path, ai := range p.o.acc {
		if !pathOverlap(path, p.path) {
			continue
		}
		if ai.lastW != nil && !(ai.lastW.tid == t.id || ai.lastW.clk <= t.vc[ai.lastW.tid]) {
			w.reportRace(name, ai.lastW, &me)
		}
	}
	ai := p.o.acc[p.path]
	if ai == nil {
		ai = &accInfo{}
		p.o.acc[p.path] = ai
	}
	for i := range ai.reads {
		if ai.reads[i].tid == t.id {
			ai.reads[i] = me
			return
		}
	}
	ai.reads = append(ai.reads, me)
}

func (w *World) reportRace(field string, a, b *accRec) {
	s := []string{a.site, b.site}
	sort.Strings(s)
	k := "race:" + field + ":" + s[0] + "/" + s[1]
	if _, ok := w.races[k]; ok {
		return
	}
	kind := "read/write"
	if a.write && b.write {
		kind = "write/write"
	}
	w.races[k] = kind
}
