// gosym: bounded symbolic execution of the real /repo/leader code over go/ssa, decisions by z3/cvc5.
package main

import (
	"time"
	"encoding/json"
	"flag"
	"fmt"
	"os"
	"path/filepath"
	"regexp"
	"runtime"
	"sort"
	"strconv"
	"strings"
)

func main() {
	repo := flag.String("repo", "/repo", "repository root")
	hdir := flag.String("harness", "/verif/harness", "directory of overlay harness files")
	run := flag.String("run", "", "regexp of harness function names (vpH_...)")
	out := flag.String("out", "", "write JSON results here")
	workers := flag.Int("workers", runtime.NumCPU(), "parallel workers")
	solver := flag.String("solver", "z3", "z3 | z3-new | cvc5")
	timeoutMs := flag.Int("timeout-ms", 10000, "per-query solver timeout")
	maxPaths := flag.Int("max-paths", 400000, "path cap per harness (hit = inconclusive)")
	harnessBudget := flag.Int("harness-budget-s", 0, "wall-clock budget per harness in seconds (exceeded = inconclusive); 0 = none")
	unwind := flag.Int("unwind", 64, "loop unwinding bound per frame")
	maxThreads := flag.Int("max-threads", 40, "thread slots")
	maxDepth := flag.Int("max-depth", 60, "call depth bound (recursion)")
	maxDec := flag.Int("max-decisions", 4000, "decision depth bound per path")
	stepBudget := flag.Int("step-budget", 3000000, "SSA steps per path")
	single := flag.String("single", "", "debug: run exactly this decision vector (space separated) and dump the path")
	seed := flag.Int64("seed", 0, "exploration order seed")
	raceFields := flag.String("race-fields", "kvElection.,disconnectHandler.,natsConnectionMonitor.", "field-name prefixes tracked by the race detector")
	skip := flag.String("skip", "", "regexp of harness function names to leave out")
	list := flag.Bool("list", false, "list harness functions")
	flag.Parse()

	overlay := map[string][]byte{}
	files, _ := filepath.Glob(filepath.Join(*hdir, "*.go"))
	sort.Strings(files)
	for _, f := range files {
		b, err := os.ReadFile(f)
		if err != nil {
			panic(err)
		}
		overlay[filepath.Join(*repo, "leader", filepath.Base(f))] = b
	}
	eng, loadT := loadEngine(*repo, overlay, "verif")
	eng.workers, eng.solverKind, eng.timeoutMs, eng.maxPaths = *workers, *solver, *timeoutMs, *maxPaths
	eng.harnessBudget = time.Duration(*harnessBudget) * time.Second
	eng.unwind, eng.maxThreads, eng.maxDepth, eng.maxDecisions, eng.stepBudget, eng.seed = *unwind, *maxThreads, *maxDepth, *maxDec, *stepBudget, *seed
	eng.raceFields = strings.Split(*raceFields, ",")

	var names []string
	for n, m := range eng.pkg.Members {
		if _, ok := m.(interface{ Name() string }); ok && strings.HasPrefix(n, "vpH_") {
			names = append(names, n)
		}
	}
	sort.Strings(names)
	if *list {
		for _, n := range names {
			fmt.Println(n)
		}
		return
	}
	re := regexp.MustCompile(*run)
	var skipRe *regexp.Regexp
	if *skip != "" {
		skipRe = regexp.MustCompile(*skip)
	}
	var results []*Result
	for _, n := range names {
		if !re.MatchString(n) || (skipRe != nil && skipRe.MatchString(n)) {
			continue
		}
		fn := eng.pkg.Func(n)
		if fn == nil {
			continue
		}
		if *single != "" || flag.NArg() > 0 && flag.Arg(0) == "single" {
			var p []int
			for _, x := range strings.Fields(*single) {
				v, _ := strconv.Atoi(x)
				p = append(p, v)
			}
			eng.curHarness = n
			s := newSolver(eng.solverKind, eng.timeoutMs)
			w, eerr := eng.runPath(s, fn, p, nil)
			fmt.Println("engine error:", eerr)
			if w != nil {
				fmt.Println("taken:", w.taken)
				fmt.Println("kinds:", w.dkinds)
				for _, ev := range w.events {
					fmt.Println("  event:", ev)
				}
				for _, sc := range w.sched {
					fmt.Println("  sched:", sc.Thread, sc.Label)
				}
				for _, v := range w.viol {
					fmt.Printf("  VIOL %s site=%s detail=%s model=%v\n", v.ID, v.Site, v.Detail, v.Model)
				}
				fmt.Println("infeasible:", w.infeas, "truncated:", w.truncated, w.truncWhy, "inconclusive:", w.inconclusive, "crashed:", w.crashed)
				for _, t := range w.threads {
					fmt.Printf("  thread %s done=%v wait=%s site=%s\n", t.name, t.done, t.waitWhat, t.siteShort())
				}
			}
			return
		}
		r := eng.explore(fn)
		results = append(results, r)
		fmt.Fprintf(os.Stderr, "%s: paths=%d truncated=%d infeasible=%d violations=%d(groups) queries=%d/%d/%d solver=%.2fs wall=%.2fs covers=%v incon=%v engerr=%v\n",
			n, r.Paths, r.Truncated, r.Infeasible, len(r.Violations), r.QSat, r.QUnsat, r.QUnknown, r.SolverS, r.WallS, r.Covers, r.Inconclusive, r.EngineErrors)
		for _, v := range r.Violations {
			fmt.Fprintf(os.Stderr, "   VIOL x%d %s site=%s %s\n", v.Count, v.ID, v.Site, v.Detail)
		}
	}
	doc := map[string]interface{}{"load_s": loadT.Seconds(), "results": results,
		"mutation_sites_static": eng.staticMutationSites(), "mutation_sites_executed": eng.executedMutationSites()}
	b, _ := json.MarshalIndent(doc, "", " ")
	if *out != "" {
		os.WriteFile(*out, b, 0o644)
	} else {
		os.Stdout.Write(b)
	}
}
