// gosym — bounded symbolic executor for go/ssa, values and terms.
package main

import (
	"fmt"
	"go/types"
	"math"
	"math/big"
	"strings"

	"golang.org/x/tools/go/ssa"
)

// Val is a runtime value of the interpreter. Concrete kinds: bool, int64 (every
// integer kind; unsigned 64-bit values above 2^63 are not representable and
// raise an engine error), float64, string. Symbolic: Sym. Special floats: FSpec.
type Val interface{}

// Sym is an SMT term of sort s: 'B' Bool, 'I' Int, 'R' Real, 'S' String.
type Sym struct {
	t string
	s byte
}

// FSpec is +Inf (k=1), -Inf (k=-1) or NaN (k=0) of float64.
type FSpec struct{ k int }

type Obj struct {
	v   Val
	id  int
	typ types.Type // allocated type (for naming fields / mutexes)
	// race detection (C20): last write / reads per leaf path
	acc map[string]*accInfo
	label string // captured local variable of a library function (race detector)
}
type Ptr struct {
	o    *Obj
	path string // dotted indices ".1.0"
}
type StructV struct{ f []Val }
type ArrayV struct{ e []Val }
type SliceV struct {
	o      *Obj // backing ArrayV
	lo, hi int
}

// BytesV is a []byte holding an abstract JSON record.
type BytesV struct{ r *Rec }

// Rec: abstract record contents. mk: produced by json.Marshal(leadershipPayload).
type Rec struct {
	mk            bool
	id, tok, prio Val
	name          string // symbolic record: base name of its SMT functions
	empty         bool   // concrete empty value (tombstone)
}
type IfaceV struct {
	typ types.Type
	v   Val
}
type TupleV []Val
type FuncV struct {
	fn    *ssa.Function
	binds []Val
	intr  string
	data  Val
}
type MapV struct {
	m    map[string]Val
	keys []string
	json *Rec // non-nil: result of json.Unmarshal into map[string]interface{}
}
type JSONField struct {
	r *Rec
	f string
}
type Opaque struct{ what string }
type TimeV struct{ ns Val }

type Chan struct {
	tm     *Timer
	buf    []Val
	cap    int
	closed bool
	id     int
	// rendezvous for unbuffered channels
	recvWaiting int
	vc          VC
}
type Ctx struct {
	parent   *Ctx
	done     *Chan
	err      string // "", "context canceled", "context deadline exceeded"
	kids     []*Ctx
	deadline Val // nil = none
	vc       VC
}
type Timer struct {
	at     Val
	ch     *Chan
	period Val
	fn     Val
	dead   bool
	fired  bool
	name   string
	id     int
	vc     VC
}
type Mutex struct {
	w       *Thread
	readers map[*Thread]int
	name    string
	vc      VC // released by writers (Unlock)
	rvc     VC // released by readers (RUnlock): ordered before later writers only
}

func isSym(v Val) bool { _, ok := v.(Sym); return ok }

func smtInt(x int64) string {
	if x < 0 {
		if x == math.MinInt64 {
			return "(- 9223372036854775808)"
		}
		return fmt.Sprintf("(- %d)", -x)
	}
	return fmt.Sprintf("%d", x)
}
func smtReal(x float64) string {
	if math.IsInf(x, 0) || math.IsNaN(x) {
		panic(engErr("special float in term"))
	}
	r := new(big.Rat).SetFloat64(x)
	neg := r.Sign() < 0
	if neg {
		r.Neg(r)
	}
	var s string
	if r.IsInt() {
		s = r.Num().String() + ".0"
	} else {
		s = "(/ " + r.Num().String() + ".0 " + r.Denom().String() + ".0)"
	}
	if neg {
		return "(- " + s + ")"
	}
	return s
}
func smtStr(s string) string {
	var b strings.Builder
	b.WriteByte('"')
	for _, r := range s {
		switch {
		case r == '"':
			b.WriteString(`""`)
		case r == '\\':
			b.WriteString(`\u{5c}`)
		case r < 32 || r > 126:
			fmt.Fprintf(&b, `\u{%x}`, r)
		default:
			b.WriteRune(r)
		}
	}
	b.WriteByte('"')
	return b.String()
}

func term(v Val) string {
	switch x := v.(type) {
	case Sym:
		return x.t
	case int64:
		return smtInt(x)
	case bool:
		if x {
			return "true"
		}
		return "false"
	case float64:
		return smtReal(x)
	case string:
		return smtStr(x)
	}
	panic(engErr(fmt.Sprintf("term of %T", v)))
}

func symI(t string) Sym { return Sym{t, 'I'} }
func symB(t string) Sym { return Sym{t, 'B'} }
func symR(t string) Sym { return Sym{t, 'R'} }
func symS(t string) Sym { return Sym{t, 'S'} }

func add(a, b Val) Val {
	if !isSym(a) && !isSym(b) {
		return a.(int64) + b.(int64)
	}
	if x, ok := b.(int64); ok && x == 0 {
		return a
	}
	if x, ok := a.(int64); ok && x == 0 {
		return b
	}
	return symI("(+ " + term(a) + " " + term(b) + ")")
}
func sub(a, b Val) Val {
	if !isSym(a) && !isSym(b) {
		return a.(int64) - b.(int64)
	}
	return symI("(- " + term(a) + " " + term(b) + ")")
}
func not(a Val) Val {
	if s, ok := a.(Sym); ok {
		if strings.HasPrefix(s.t, "(not ") {
			return symB(s.t[5 : len(s.t)-1])
		}
		return symB("(not " + s.t + ")")
	}
	return !a.(bool)
}
func and(a, b Val) Val {
	if x, ok := a.(bool); ok {
		if !x {
			return false
		}
		return b
	}
	if x, ok := b.(bool); ok {
		if !x {
			return false
		}
		return a
	}
	return symB("(and " + term(a) + " " + term(b) + ")")
}
func or(a, b Val) Val { return not(and(not(a), not(b))) }

type engineError struct{ msg string }

func engErr(m string) engineError { return engineError{m} }

// intKind returns (bits, signed) for an integer basic type.
func intKind(t types.Type) (int, bool, bool) {
	b, ok := t.Underlying().(*types.Basic)
	if !ok || b.Info()&types.IsInteger == 0 {
		return 0, false, false
	}
	switch b.Kind() {
	case types.Int8:
		return 8, true, true
	case types.Int16:
		return 16, true, true
	case types.Int32:
		return 32, true, true
	case types.Int, types.Int64, types.UntypedInt:
		return 64, true, true
	case types.Uint8:
		return 8, false, true
	case types.Uint16:
		return 16, false, true
	case types.Uint32:
		return 32, false, true
	case types.Uint, types.Uint64, types.Uintptr:
		return 64, false, true
	}
	return 64, true, true
}

func normInt(x int64, bits int, signed bool) int64 {
	switch {
	case bits == 64:
		return x
	case signed:
		sh := uint(64 - bits)
		return (x << sh) >> sh
	default:
		return x & (int64(1)<<uint(bits) - 1)
	}
}

func rangeOf(bits int, signed bool) (lo, hi string) {
	one := big.NewInt(1)
	if signed {
		h := new(big.Int).Lsh(one, uint(bits-1))
		l := new(big.Int).Neg(h)
		h.Sub(h, one)
		return "(- " + new(big.Int).Neg(l).String() + ")", h.String()
	}
	h := new(big.Int).Lsh(one, uint(bits))
	h.Sub(h, one)
	return "0", h.String()
}

func zero(t types.Type) Val {
	switch u := t.Underlying().(type) {
	case *types.Basic:
		switch {
		case u.Info()&types.IsBoolean != 0:
			return false
		case u.Info()&types.IsInteger != 0:
			return int64(0)
		case u.Info()&types.IsFloat != 0:
			return float64(0)
		case u.Info()&types.IsString != 0:
			return ""
		case u.Kind() == types.UnsafePointer:
			return Ptr{}
		case u.Kind() == types.UntypedNil:
			return Opaque{"nil"}
		}
		return Opaque{"zero:" + u.String()}
	case *types.Struct:
		if t.String() == "time.Time" {
			return TimeV{int64(0)}
		}
		sv := StructV{}
		for i := 0; i < u.NumFields(); i++ {
			sv.f = append(sv.f, zero(u.Field(i).Type()))
		}
		return sv
	case *types.Array:
		av := ArrayV{}
		for i := int64(0); i < u.Len(); i++ {
			av.e = append(av.e, zero(u.Elem()))
		}
		return av
	case *types.Pointer:
		return Ptr{}
	case *types.Interface:
		return IfaceV{}
	case *types.Slice:
		if b, ok := u.Elem().Underlying().(*types.Basic); ok && b.Kind() == types.Uint8 {
			return BytesV{}
		}
		return SliceV{}
	case *types.Signature:
		return FuncV{}
	case *types.Chan:
		return (*Chan)(nil)
	case *types.Map:
		return (*MapV)(nil)
	case *types.Tuple:
		tv := TupleV{}
		for i := 0; i < u.Len(); i++ {
			tv = append(tv, zero(u.At(i).Type()))
		}
		return tv
	}
	return Opaque{"zero:" + t.String()}
}

func idxs(path string) []int {
	if path == "" {
		return nil
	}
	var r []int
	n, have := 0, false
	for i := 0; i < len(path); i++ {
		c := path[i]
		if c == '.' {
			if have {
				r = append(r, n)
			}
			n, have = 0, false
			continue
		}
		n = n*10 + int(c-'0')
		have = true
	}
	if have {
		r = append(r, n)
	}
	return r
}
func getPath(v Val, path []int) Val {
	for _, i := range path {
		switch c := v.(type) {
		case StructV:
			v = c.f[i]
		case ArrayV:
			if i >= len(c.e) {
				panic(engErr("index out of range in getPath"))
			}
			v = c.e[i]
		case TimeV, Opaque:
			return Opaque{"inside-opaque"}
		default:
			panic(engErr(fmt.Sprintf("getPath into %T", v)))
		}
	}
	return v
}
func setPath(v Val, path []int, nv Val) Val {
	if len(path) == 0 {
		return nv
	}
	switch c := v.(type) {
	case StructV:
		f := append([]Val(nil), c.f...)
		f[path[0]] = setPath(f[path[0]], path[1:], nv)
		return StructV{f}
	case ArrayV:
		e := append([]Val(nil), c.e...)
		e[path[0]] = setPath(e[path[0]], path[1:], nv)
		return ArrayV{e}
	case Opaque:
		return c
	}
	panic(engErr(fmt.Sprintf("setPath into %T", v)))
}

// fieldName resolves a path inside an allocated type to "Type.field.field".
func fieldName(t types.Type, path []int) string {
	if t == nil {
		return "?"
	}
	name := ""
	if n, ok := t.(*types.Named); ok {
		name = n.Obj().Name()
	} else if p, ok := t.(*types.Pointer); ok {
		if n, ok := p.Elem().(*types.Named); ok {
			name = n.Obj().Name()
		}
	}
	if name == "" {
		name = t.String()
	}
	cur := t
	for _, i := range path {
		switch u := cur.Underlying().(type) {
		case *types.Struct:
			if i < u.NumFields() {
				name += "." + u.Field(i).Name()
				cur = u.Field(i).Type()
			} else {
				return name + ".?"
			}
		case *types.Array:
			name += fmt.Sprintf("[%d]", i)
			cur = u.Elem()
		default:
			return name
		}
	}
	return name
}
