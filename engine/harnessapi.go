package main

import (
	"fmt"
	"strings"
)

func (w *World) harnessAPI(t *Thread, f *Frame, name string, args []Val) (Val, bool) {
	switch name {
	case "vpChoose":
		n := int(args[1].(int64))
		d := w.decide(n, "choose:"+args[0].(string))
		w.events = append(w.events, fmt.Sprintf("choose %s=%d", args[0], d))
		w.chooseLog = append(w.chooseLog, [2]string{args[0].(string), fmt.Sprint(d)})
		return int64(d), false
	case "vpAssert":
		w.doAssert(args[0].(string), args[1])
		return nil, false
	case "vpAssume":
		switch c := args[0].(type) {
		case bool:
			if !c {
				w.infeas = true
				t.done = true
			}
		case Sym:
			w.s.send("(assert " + c.t + ")")
			if r := w.s.check(""); r == "unsat" {
				w.infeas = true
				t.done = true
			} else if r == "unknown" {
				w.inconclusive = "solver unknown on assumption"
			}
		}
		return nil, false
	case "vpCover":
		w.covers[args[0].(string)] = true
		return nil, false
	case "vpInt64", "vpInt":
		n := w.fresh("in_"+args[0].(string), "Int")
		lo, hi := rangeOf(64, true)
		w.s.send(fmt.Sprintf("(assert (and (>= %s %s) (<= %s %s)))", n, lo, n, hi))
		return symI(n), false
	case "vpBool":
		return symB(w.fresh("in_"+args[0].(string), "Bool")), false
	case "vpStr":
		return symS(w.fresh("in_"+args[0].(string), "String")), false
	case "vpFloat":
		return symR(w.fresh("in_"+args[0].(string), "Real")), false
	case "vpRec":
		return BytesV{w.newSymRec(args[0].(string))}, false
	case "vpRecMk":
		return BytesV{&Rec{mk: true, id: args[0], tok: args[1], prio: args[2]}}, false
	case "vpRecID":
		return w.recFn(args[0].(BytesV).r, "sID", "String"), false
	case "vpRecTok":
		return w.recFn(args[0].(BytesV).r, "sTok", "String"), false
	case "vpRecPrio":
		return w.recFn(args[0].(BytesV).r, "sPrio", "Int"), false
	case "vpRecParses":
		return not(w.recFn(args[0].(BytesV).r, "sErr", "Bool")), false
	case "vpRecEmpty":
		return w.recFn(args[0].(BytesV).r, "empty", "Bool"), false
	case "vpNoteToken":
		return nil, false
	case "vpSameBytes":
		return args[0].(BytesV).r == args[1].(BytesV).r, false
	case "vpRecMapID": // (present-as-string, value) of the "id" member in the generic-map parse
		r := args[0].(BytesV).r
		ok := and(not(w.recFn(r, "mErr", "Bool")), and(w.recFn(r, "mHas_id", "Bool"), w.recFn(r, "mIsStr_id", "Bool")))
		return TupleV{ok, w.recFn(r, "mStr_id", "String")}, false
	case "vpRecMapTok":
		r := args[0].(BytesV).r
		ok := and(not(w.recFn(r, "mErr", "Bool")), and(w.recFn(r, "mHas_token", "Bool"), w.recFn(r, "mIsStr_token", "Bool")))
		return TupleV{ok, w.recFn(r, "mStr_token", "String")}, false
	case "vpConcreteStr":
		if s, ok := args[0].(string); ok {
			return TupleV{s, true}, false
		}
		return TupleV{"", false}, false
	case "vpAnd":
		return and(args[0], args[1]), false
	case "vpOr":
		return or(args[0], args[1]), false
	case "vpNot":
		return not(args[0]), false
	case "vpImplies":
		return or(not(args[0]), args[1]), false
	case "vpIte":
		if c, ok := args[0].(bool); ok {
			if c {
				return args[1], false
			}
			return args[2], false
		}
		return symI("(ite " + term(args[0]) + " " + term(args[1]) + " " + term(args[2]) + ")"), false
	case "vpEndPath":
		w.truncate("budget:" + args[0].(string))
		return nil, true
	case "vpNow":
		return sub(w.now, int64(epochNs)), false
	case "vpBlockForever":
		t.waitWhat = "blocked forever (stub hang)"
		t.ready = func() bool { return false }
		t.stubHang = true
		return nil, true
	case "vpDelay":
		lbl := args[0].(string)
		lo, hi := args[1], args[2]
		if l, ok := lo.(int64); ok {
			if h, ok := hi.(int64); ok && l == h {
				if l == 0 {
					return nil, false
				}
				tm := w.newTimer(add(w.now, l), "delay:"+lbl)
				w.retBlock(f)
				t.waitTm = tm
				t.waitWhat = "delay " + lbl
				t.ready = func() bool { return tm.fired }
				return nil, true
			}
		}
		d := w.fresh("d_"+lbl, "Int")
		w.s.send(fmt.Sprintf("(assert (and (<= %s %s) (<= %s %s)))", term(lo), d, d, term(hi)))
		if w.s.check("") != "sat" {
			w.infeas = true
			t.done = true
			return nil, true
		}
		tm := w.newTimer(add(w.now, symI(d)), "delay:"+lbl)
		w.retBlock(f)
		t.waitTm = tm
		t.waitWhat = "delay " + lbl
		t.ready = func() bool { return tm.fired }
		return nil, true
	case "vpYield":
		if len(t.held) > 0 {
			w.yieldUnderLock = true // a goroutine parks while holding a mutex: native replay cannot use synctest.Wait stepping
		}
		t.yielded = true
		t.yieldAt = args[0].(string)
		w.retBlock(f)
		return nil, true
	case "vpYieldLazy", "vpYieldLazyOps":
		t.lazyOps = name == "vpYieldLazyOps"
		// parked until chosen at a store-visible point (another thread at a yield, or a quiescent instant)
		// or until maxWait has elapsed; does not keep the clock from advancing
		tm := w.newTimer(add(w.now, args[1]), "lazy:"+args[0].(string))
		t.lazy = true
		t.lazyTm = tm
		t.yieldAt = args[0].(string)
		t.waitTm = tm
		t.waitWhat = "lazy " + args[0].(string)
		t.ready = func() bool { return tm.fired }
		w.retBlock(f)
		return nil, true
	case "vpQuiesce":
		t.yielded = true
		t.lowPrio = true
		t.yieldAt = "quiesce"
		w.retBlock(f)
		return nil, true
	case "vpEvent":
		var parts []string
		for _, a := range w.sliceElems(args[1]) {
			if iv, ok := a.(IfaceV); ok {
				a = iv.v
			}
			if s, ok := a.(Sym); ok {
				parts = append(parts, s.t)
			} else {
				parts = append(parts, fmt.Sprint(a))
			}
		}
		w.events = append(w.events, fmt.Sprintf("%s(%s)@%s", args[0], strings.Join(parts, ","), nowStr(w.now)))
		return nil, false
	case "vpSite":
		// library functions on the call stacks of the current thread (names only)
		return t.siteShort(), false
	case "vpThreadsAlive":
		n := 0
		for _, o := range w.threads {
			if o.lib && !o.done && !o.stubHang && !o.inStubHang() {
				n++
			}
		}
		return int64(n), false
	case "vpThreadsAliveDesc":
		var d []string
		for _, o := range w.threads {
			if o.lib && !o.done && !o.inStubHang() {
				d = append(d, o.siteShort()+"["+o.waitWhat+"]")
			}
		}
		return strings.Join(d, ";"), false
	case "vpDeadlocked":
		return w.mutexCycle(), false
	case "vpSetOpt":
		v := args[1].(int64)
		switch args[0].(string) {
		case "float-rounding":
			w.floatRounding = v != 0
		case "sched-full":
			w.schedFull = v != 0
		case "rand-fixed":
			w.randFixed = v != 0
		case "race":
			w.raceOn = v != 0
		case "step-budget":
			w.stepBudget = int(v)
		default:
			panic(engErr("unknown option " + args[0].(string)))
		}
		return nil, false
	case "vpRootCtx":
		return IfaceV{typ: w.eng.ctxType, v: w.bg()}, false
	case "vpRaces":
		return int64(len(w.races)), false
	case "vpConcrete": // fork a symbolic int into concrete values lo..hi
		return w.concretizeInt(args[1], args[2].(int64), args[3].(int64), args[0].(string)), false
	}
	panic(engErr("unknown harness API " + name))
}

func nowStr(v Val) string {
	if n, ok := v.(int64); ok {
		return fmt.Sprint(n - epochNs)
	}
	return term(v)
}

func (t *Thread) inStubHang() bool { return t.stubHang }
